"""C05 - an analysis gives the same result whether driven by run or by fill.

The same chain  pre* acc post*  is instantiated afresh and driven under
three control-flow regimes (pull = Sequence.run, push = FillComputeSeq /
FillSeq filled value by value until LenaStopFill, blocked = branch of a
Split with a seeded bufsize); outputs, exceptions and the accumulator's
fill log must agree.  Adapters and method names are swarm knobs.
See DESIGN.md section 3, C05.
"""
import copy
import decimal

import lena.core
import lena.context
import lena.flow
import lena.math
import lena.structures
import lena.variables

from ..kernel import RunResult, StepBudget, StepBudgetExceeded, summarize, exception_origin
from ..seams.flow import ProbeFC, RaisesAt, Numbering, FailsFor

PROPERTY = "C05"
LEVEL = "exploration"
ABSTRACT_WIDTH = 6
N_RUNS = {"quick": 120000, "thorough": 4000000}
RULE = ("each run draws a chain of 0-3 pre-elements (callable, Variable, Filter, non-negative "
        "Slice(start,stop,step), RunIf), one accumulator (Sum, DSum, Mean with/without "
        "pass_on_empty or sum_seq, VarianceMeanCount, Vectorize, StoreFilled, GroupBy, Histogram, "
        "FillCompute(Count), probe) and 0-2 post-elements, a flow of 0-10 values with or without "
        "context, a Split bufsize in {1..n+1,1000,None} with 0-2 sibling branches, and drives "
        "fresh instances under pull, push (FillComputeSeq and FillSeq+Sequence) and blocked "
        "regimes; one run in five checks an adapter (Call, Run, FillInto, FillCompute, SourceEl) "
        "with a drawn method name or an ill-typed argument instead; non-trivial = at least one "
        "pre-element and a non-empty flow, or an adapter case; distinct = distinct abstracted "
        "event-kind sequences."
        " Since the seeded rounds also: callables that return None or a generator, stateful"
        " callables under deep copies of the sequence, pre-elements raising Lena exceptions,"
        " Variables with data attributes named like methods, selectors of Filter given as function"
        " / Selector / Selector(raise_on_error=False) around a raising predicate / list / tuple /"
        " class, post-elements Slice(1), Reverse and a second accumulator; adapter cases with"
        " decoy standard methods, composite uses and elements that are empty containers."
        " Also: the builtin int as pre-element, Compose and typed Variables, a FillRequest"
        " adapter as post-element, a stopping sibling that also changes its copy of the values.")
REAL = ["lena.core.Sequence", "lena.core.FillComputeSeq", "lena.core.FillSeq", "lena.core.Split",
        "lena.core adapters (Call, Run, FillInto, FillCompute, SourceEl)", "lena.flow.Filter",
        "lena.flow.Slice", "lena.flow.RunIf", "lena.flow.Count", "lena.flow.StoreFilled",
        "lena.flow.GroupBy", "lena.math.Sum/DSum/Mean/VarianceMeanCount/Vectorize",
        "lena.structures.Histogram", "lena.variables.Variable", "lena.context.UpdateContext"]
STUB = ["logging proxy around the accumulator (records every fill)", "pure pre/post callables",
        "sibling probe branches", "drivers of the three regimes", "step-budget watchdog"]
ASSUMPTIONS = [
    "no external model: the three regimes are compared with each other, so an error common to "
    "all of them is invisible here (C09 checks the aggregates themselves)",
    "Count is used only behind the FillCompute adapter (a bare Count in a Sequence is by "
    "documentation a streaming element)",
]
FAULT_KINDS = ["LenaStopFill-from-Slice-mid-flow", "accumulator-exception", "ill-typed-adapter-argument",
               "pre-element-raises-lena-exception"]
EXPECTED_PROBES = ["slice-stops-before-flow-end", "slice-stop-inside-split-block", "runif-selected",
                   "filter-rejects", "split-multi-block", "sibling-stops-mid-flow", "watchdog-armed", "adapter-renamed-method",
                   "adapter-ill-typed", "adapter-decoy-standard-method",
                   "deep-copied-sequence-with-stateful-element", "adapter-element-is-falsy",
                   "adapter-call-of-a-class-with-instance-call", "adapter-fillcompute-of-an-element-that-also-has-run", "adapter-call-instance-attribute-dunder-call"]

ACCS = ["sum", "dsum", "mean", "mean-pass", "mean-sumseq", "vmc", "vectorize", "store",
        "store-items", "groupby", "histogram", "count", "probe"]


class Spec(object):
    pass


def gen_scenario(tape):
    sc = Spec()
    sc.mode = "adapter" if tape.chance(1, 5, "adapter-mode") else "chain"
    if sc.mode == "adapter":
        sc.adapter = tape.choice(["Call", "Run", "FillInto", "FillCompute", "SourceEl"], "adapter")
        sc.case = tape.draw(12, "adapter-case")
        sc.mname = tape.choice(["go", "apply", "push", "add", "result", "gen", "my_run"], "mname")
        # the element also has a method with the standard name that does something else:
        # the adapter must use the name it was given
        sc.decoy = bool(tape.draw(2, "decoy-standard-method"))
        sc.n = tape.draw(6, "flowlen")
        # the element is an empty container (its truth value is False): still an element
        sc.falsy = tape.chance(1, 3, "element-is-falsy")
        return sc
    sc.acc = tape.choice(ACCS, "acc")
    sc.with_context = bool(tape.draw(2, "with-context")) or sc.acc == "groupby"
    sc.vector = sc.acc == "vectorize"
    sc.pre = []
    for _ in range(tape.weighted([(2, 0), (4, 1), (3, 2), (2, 3)], "npre")):
        k = tape.weighted([(3, "call"), (2, "variable"), (3, "filter"), (3, "slice"), (2, "runif"),
                           (1, "compose")], "pre")
        if k == "filter":
            # how the selector is given: a function, a Selector (which may be told to take an
            # exception of its function for False), a list / tuple of selectors, a class
            sc.pre.append(("filter", tape.draw(8, "pred"),
                           tape.weighted([(4, "function"), (1, "selector"), (2, "selector-noraise"),
                                          (1, "or-list"), (1, "and-tuple"), (1, "class")], "selector-form")))
        elif k == "slice":
            a = tape.draw(4, "slice-start")
            b = tape.draw(7, "slice-len")
            s = 1 + tape.draw(3, "slice-step")
            form = tape.draw(4, "slice-form")
            if form == 0:
                args = (a + b,)
            elif form == 1:
                args = (a, a + b)
            elif form == 2:
                args = (a, a + b, s)
            else:
                args = (a, None, s)
            sc.pre.append(("slice", args))
        elif k == "runif":
            sc.pre.append(("runif", tape.draw(8, "pred"), tape.draw(3, "ninner"),
                           tape.weighted([(4, None), (2, "dup"), (1, "slice1"), (1, "trailer"),
                                          (1, "count")], "runif-extra")))
        elif k == "compose":
            # a composition of two typed variables followed by another typed variable
            sc.pre.append(("compose", tape.draw(3, "fn")))
        elif k == "call":
            sc.pre.append(("call", tape.draw(3, "fn")))
        else:
            sc.pre.append(("variable", tape.draw(3, "fn")))
    # a callable that returns None for some values (dict.get, re.match, a missing return):
    # None is a value like any other and must reach the accumulator in every regime
    if sc.acc in ("store", "store-items", "count", "probe") and tape.chance(1, 4, "callable-returns-None"):
        sc.pre.append(("callnone", tape.draw(8, "pred")))
    # a callable that raises a Lena exception other than LenaStopFill at its k-th call: it must
    # surface in every regime (only LenaStopFill means "this branch has enough")
    if tape.chance(1, 8, "pre-element-raises-lena-exception"):
        sc.pre.append(("callraise", tape.draw(6, "raise-at"), tape.choice(["LenaKeyError", "LenaValueError"], "exc")))
    # a stateful callable: a deep copy of the sequence must work on its own copy of it
    if sc.acc in ("store", "store-items", "count", "probe") and not any(st[0] in ("callnone", "callraise") for st in sc.pre) \
            and tape.chance(1, 6, "stateful-callable"):
        sc.pre.append(("callcount",))
    # a callable whose result is a generator object: that object is the value, in every regime
    if sc.acc in ("store", "store-items", "count", "probe") and not any(st[0] == "callnone" for st in sc.pre) \
            and tape.chance(1, 6, "callable-returns-generator"):
        sc.pre.append(("callgen",))
    # a builtin (a callable that inspect.signature cannot describe) as the first element
    if not sc.with_context and not sc.vector and tape.chance(1, 6, "builtin-callable"):
        sc.pre.insert(0, ("builtin",))
    sc.post = []
    for _ in range(tape.weighted([(3, 0), (3, 1), (1, 2)], "npost")):
        # per-value post elements, and run elements whose output depends on the whole flow of
        # results (a Slice, Reverse, a second accumulator used as a run element)
        sc.post.append(tape.choice(["call", "variable", "updatecontext", "slice1", "reverse", "store-run",
                                    "fillrequest-run"], "post"))
    sc.n = tape.draw(11, "flowlen")
    sc.values = [tape.draw(9, "value") - 2 for _ in range(sc.n)]
    sc.floaty = tape.chance(1, 3, "floats")
    sc.bufsize = tape.choice([1000, None, 1, 2, 3, sc.n + 1, max(sc.n, 1)], "bufsize")
    sc.nsib_before = tape.draw(2, "sib-before")
    # a sibling fill/compute branch that signals LenaStopFill after k values
    sc.stopper = tape.draw(5, "stopper-k") if tape.chance(1, 4, "stopper-sibling") else None
    sc.nsib_after = tape.draw(2, "sib-after")
    sc.explicit_fcs = bool(tape.draw(2, "explicit-fcseq"))
    sc.copy_buf = not tape.chance(1, 6, "copy-buf-off")
    sc.watch = tape.chance(1, 4, "watchdog")
    return sc


# ---------------------------------------------------------------------------
# pure helpers

def mapd(value, f):
    """Apply f to the data part (component-wise for vectors)."""
    data, ctx = lena.flow.get_data_context(value)
    if isinstance(data, tuple):
        nd = tuple(f(x) for x in data)
    else:
        nd = f(data)
    if isinstance(value, tuple) and len(value) == 2 and isinstance(value[1], dict):
        return (nd, ctx)
    return nd


FNS = [lambda x: x + 1, lambda x: x * 2, lambda x: x - 3]


def first(value):
    d = lena.flow.get_data(value)
    if isinstance(d, tuple):
        d = d[0]
    return d


PREDS = [
    lambda v: first(v) % 2 == 0,
    lambda v: first(v) % 3 != 0,
    lambda v: first(v) > 0,
    lambda v: True,
    lambda v: False,
    # truthy / falsy values that are not booleans
    lambda v: first(v) % 3,
    lambda v: first(v),
    lambda v: [first(v)] if first(v) > 0 else [],
]


def make_selector(st):
    pred = PREDS[st[1]]
    form = st[2] if len(st) > 2 else "function"
    if form == "function":
        return pred
    if form == "selector":
        return lena.flow.Selector(pred)
    if form == "selector-noraise":
        # the function fails for some values: with raise_on_error=False that means "not selected"
        return lena.flow.Selector(FailsFor(pred, lambda v: first(v) % 4 == 1), raise_on_error=False)
    if form == "or-list":
        return [pred, lambda v: first(v) % 5 == 0]
    if form == "and-tuple":
        return (pred, lambda v: first(v) % 5 != 0)
    return int if st[1] % 2 else float      # a class: the data part is an instance of it


class Trailer(object):
    """Run element yielding a closing value after its flow ends."""

    def run(self, flow):
        n = 0
        for v in flow:
            n += 1
            yield v
        # a new value with its own context (no aliasing between the values of a flow)
        yield mapd(copy.deepcopy(v), lambda x: x * 0 + n) if n else 0


class Dup(object):
    """Run element yielding two results per value (inside RunIf)."""

    def run(self, flow):
        for v in flow:
            yield v
            # a new value with its own context: two values of a flow never share a context
            # object (a stateful element that updates contexts in place, like Count, would
            # otherwise show in the first value what happened to the second)
            yield mapd(copy.deepcopy(v), lambda x: x + 100)


def make_flow(sc):
    out = []
    for i, x in enumerate(sc.values):
        if sc.floaty:
            x = x * 0.5
        d = (x, x + 1) if sc.vector else x
        if sc.with_context:
            out.append((d, {"k": i % 2, "i": {"idx": i}}))
        else:
            out.append(d)
    return out


class LoggedAcc(object):
    """Logging proxy: fill/compute of the real accumulator."""

    def __init__(self, inner, fills):
        self._inner = inner
        self._fills = fills

    def fill(self, value):
        self._fills.append(summarize(value))
        self._inner.fill(value)

    def compute(self):
        return self._inner.compute()


def make_acc(sc, fills):
    a = sc.acc
    if a == "sum":
        inner = lena.math.Sum()
    elif a == "dsum":
        inner = lena.math.DSum()
    elif a == "mean":
        inner = lena.math.Mean()
    elif a == "mean-pass":
        inner = lena.math.Mean(pass_on_empty=True)
    elif a == "mean-sumseq":
        inner = lena.math.Mean(sum_seq=lena.math.Sum())
    elif a == "vmc":
        inner = lena.math.VarianceMeanCount()
    elif a == "vectorize":
        inner = lena.math.Vectorize(lena.math.Sum(), dim=2)
    elif a == "store":
        inner = lena.flow.StoreFilled()
    elif a == "store-items":
        inner = lena.flow.StoreFilled(yield_as_a_group=False)
    elif a == "groupby":
        inner = lena.flow.GroupBy("k")
    elif a == "histogram":
        inner = lena.structures.Histogram([-4, -1, 0, 2, 5, 20])
    elif a == "count":
        inner = lena.core.FillCompute(lena.flow.Count("cnt"))
    else:
        from ..kernel import Log
        inner = ProbeFC(Log(), "acc", results=2)
    return LoggedAcc(inner, fills)


def make_chain(sc, fills):
    """A fresh chain: list of elements pre* acc post*."""
    els = []
    for j, st in enumerate(sc.pre):
        if st[0] == "call":
            f = FNS[st[1]]
            els.append(lambda v, f=f: mapd(v, f))
        elif st[0] == "variable":
            f = FNS[st[1]]
            # keyword arguments of a Variable become its attributes: "run" (say, a run number) is
            # data, not a method
            extra = {"run": 2021} if (j + st[1]) % 2 else {}
            if st[1] != 1:
                # a typed variable (types are collected in context.variable.compose)
                extra["type"] = "coordinate"
            els.append(lena.variables.Variable(
                "v%d" % j, lambda d, f=f: tuple(f(x) for x in d) if isinstance(d, tuple) else f(d), **extra))
        elif st[0] == "compose":
            f = FNS[st[1]]
            g = lambda d, f=f: tuple(f(x) for x in d) if isinstance(d, tuple) else f(d)
            ident = lambda d: d
            els.append(lena.variables.Compose(
                lena.variables.Variable("c%da" % j, ident, type="coordinate"),
                lena.variables.Variable("c%db" % j, g, type="coordinate")))
        elif st[0] == "callnone":
            els.append(lambda v, p=PREDS[st[1]]: None if p(v) else v)
        elif st[0] == "builtin":
            els.append(int)
        elif st[0] == "callgen":
            els.append(lambda v: (x for x in (v, v)))
        elif st[0] == "callraise":
            els.append(RaisesAt(getattr(lena.core, st[2]), st[1]))
        elif st[0] == "callcount":
            els.append(Numbering())
        elif st[0] == "filter":
            els.append(lena.flow.Filter(make_selector(st)))
        elif st[0] == "slice":
            els.append(lena.flow.Slice(*st[1]))
        else:
            inner = [(lambda v, f=FNS[i % 3]: mapd(v, f)) for i in range(st[2])]
            if st[3] == "dup":
                inner.append(Dup())
            elif st[3] == "slice1":
                # depends on where the inner flow ends: one value per run
                inner.append(lena.flow.Slice(1))
            elif st[3] == "trailer":
                inner.append(Trailer())
            elif st[3] == "count":
                inner.append(lena.flow.Count("inner_count"))
            els.append(lena.flow.RunIf(PREDS[st[1]], *inner))
    els.append(make_acc(sc, fills))
    for j, p in enumerate(sc.post):
        if p == "call":
            els.append(lambda v: ("post", v))
        elif p == "variable":
            els.append(lena.variables.Variable("pv%d" % j, lambda d: ("var", d)))
        elif p == "slice1":
            els.append(lena.flow.Slice(1))
        elif p == "reverse":
            els.append(lena.flow.Reverse())
        elif p == "store-run":
            els.append(lena.flow.StoreFilled())
        elif p == "fillrequest-run":
            # an adapter that offers fill and request as well as run, used after the accumulator
            els.append(lena.core.FillRequest(lena.flow.StoreFilled(), bufsize=1000, reset=True,
                                             yield_on_remainder=True))
        else:
            els.append(lena.context.UpdateContext("post.u%d" % j, j + 1))
    return els


def norm(x):
    """Comparable, printable form of an output value."""
    if isinstance(x, decimal.Decimal):
        return ("Decimal", str(x))
    if isinstance(x, float):
        return ("float", repr(x))
    if isinstance(x, lena.structures.histogram):
        return ("histogram", norm(x.edges), norm(x.bins), norm(getattr(x, "n_out_of_range", None)))
    if isinstance(x, tuple) and hasattr(x, "_fields"):
        return (type(x).__name__,) + tuple(norm(y) for y in x)
    if isinstance(x, tuple):
        return ("tuple",) + tuple(norm(y) for y in x)
    if isinstance(x, list):
        return ("list",) + tuple(norm(y) for y in x)
    if isinstance(x, dict):
        return ("dict",) + tuple(sorted((repr(k), norm(v)) for k, v in x.items()))
    if x is None or isinstance(x, (bool, int, str)):
        return x
    if type(x).__name__ == "generator":
        return ("generator",)
    return ("obj", type(x).__name__, repr(x)[:60])


class Regime(object):
    def __init__(self, name):
        self.name = name
        self.out = []
        self.exc = None
        self.fills = []
        self.hang = False


def drive(name, sc, fn, res):
    r = Regime(name)
    try:
        if sc.watch:
            res.probe("watchdog-armed")
            with StepBudget(300000):
                out = fn(r)
        else:
            out = fn(r)
        r.out = [norm(x) for x in out]
    except StepBudgetExceeded:
        r.hang = True
    except Exception as e:  # noqa: BLE001
        if exception_origin(e) != "lena" and not isinstance(e, (ZeroDivisionError, TypeError,
                                                                  decimal.DecimalException)):
            raise
        r.exc = type(e).__name__
        e.__traceback__ = None
    res.log.ev("regime", name, str(r.exc), "hang" if r.hang else "ok", "fills%d" % len(r.fills),
               "out%d" % len(r.out), tuple(r.out))
    return r


def pull(sc):
    def fn(r):
        chain = make_chain(sc, r.fills)
        return list(lena.core.Sequence(*chain).run(iter(make_flow(sc))))
    return fn


def push_fcs(sc):
    def fn(r):
        chain = make_chain(sc, r.fills)
        seq = lena.core.FillComputeSeq(*chain)
        for v in make_flow(sc):
            try:
                seq.fill(v)
            except lena.core.LenaStopFill:
                break
        return list(seq.compute())
    return fn


def push_fillseq(sc):
    def fn(r):
        chain = make_chain(sc, r.fills)
        npre = len(sc.pre)
        fs = lena.core.FillSeq(*chain[:npre + 1])
        for v in make_flow(sc):
            try:
                fs.fill(v)
            except lena.core.LenaStopFill:
                break
        post = lena.core.Sequence(*chain[npre + 1:])
        return list(post.run(chain[npre].compute()))
    return fn


def blocked(sc):
    def fn(r):
        from ..kernel import Log
        chain = make_chain(sc, r.fills)
        branches = []
        slog = Log()
        for j in range(sc.nsib_before):
            branches.append((lambda v: v, ProbeFC(slog, "sibA%d" % j)))
        if sc.stopper is not None and sc.with_context and sc.copy_buf:
            # the sibling that stops also changes its (own copy of the) values in place
            branches.append((lena.context.UpdateContext("sibling_mark", 1), lena.flow.Slice(sc.stopper),
                             ProbeFC(slog, "sibS")))
        elif sc.stopper is not None:
            branches.append((lena.flow.Slice(sc.stopper), ProbeFC(slog, "sibS")))
        branches.append(lena.core.FillComputeSeq(*chain) if sc.explicit_fcs else tuple(chain))
        for j in range(sc.nsib_after):
            branches.append(lena.core.Sequence(lambda v, j=j: ("sibB%d" % j, v)))
        split = lena.core.Split(branches, bufsize=sc.bufsize, copy_buf=sc.copy_buf)
        out = []
        for x in split.run(iter(make_flow(sc))):
            if isinstance(x, tuple) and x and isinstance(x[0], str) and x[0].startswith("sib"):
                continue
            out.append(x)
        return out
    return fn


def push_on_deepcopy(sc):
    """a deep copy of the FillComputeSeq is driven first, the original afterwards: each must behave
    like a fresh instance (Vectorize, SplitIntoBins copy sequences this way)"""
    def fn(r):
        chain = make_chain(sc, [])
        seq = lena.core.FillComputeSeq(*chain)
        cp = copy.deepcopy(seq)
        outs = []
        for s_ in (cp, seq):
            for v in make_flow(sc):
                try:
                    s_.fill(v)
                except lena.core.LenaStopFill:
                    break
            outs.append(list(s_.compute()))
        return outs[0] + ["<then the original>"] + outs[1]
    return fn


def run(tape):
    res = RunResult()
    sc = gen_scenario(tape)
    if sc.mode == "adapter":
        adapter_case(sc, res)
        return res
    res.say("chain: pre=%s acc=%s post=%s" % (sc.pre, sc.acc, sc.post))
    res.say("flow: %s%s; Split bufsize=%s siblings before/after=%d/%d (+ a sibling stopping after %s values) explicit FillComputeSeq=%s "
            "copy_buf=%s" % (make_flow(sc), "", sc.bufsize, sc.nsib_before, sc.nsib_after, sc.stopper,
                             sc.explicit_fcs, sc.copy_buf))
    res.log.ev("chain", "+".join(st[0] for st in sc.pre) or "-", sc.acc, "+".join(sc.post) or "-",
               "n%d" % sc.n, "buf%s" % sc.bufsize)
    regimes = [drive("pull", sc, pull(sc), res),
               drive("push-FillComputeSeq", sc, push_fcs(sc), res),
               drive("push-FillSeq", sc, push_fillseq(sc), res),
               drive("split", sc, blocked(sc), res)]
    base = regimes[0]
    # probes
    if sc.pre and sc.n:
        res.nontrivial = True
    for st in sc.pre:
        if st[0] == "slice":
            stop = slice(*st[1]).stop
            if stop is not None and stop < sc.n:
                res.probe("slice-stops-before-flow-end")
                res.fault("LenaStopFill-from-Slice-mid-flow")
                if sc.bufsize is not None and sc.bufsize > 1 and stop % sc.bufsize:
                    res.probe("slice-stop-inside-split-block")
        if st[0] == "runif" and len(base.fills):
            res.probe("runif-selected")
        if st[0] == "filter" and len(base.fills) < sc.n:
            res.probe("filter-rejects")
    if sc.bufsize is not None and sc.n > sc.bufsize:
        res.probe("split-multi-block")
        if sc.stopper is not None and sc.stopper < sc.n:
            res.probe("sibling-stops-mid-flow")
    if base.exc:
        res.fault("accumulator-exception")
    if any(st[0] == "callraise" and st[1] < sc.n for st in sc.pre):
        res.fault("pre-element-raises-lena-exception")
    for r in regimes:
        if r.hang:
            res.viol("C05:%s:%s:does-not-terminate" % (culprit(sc, base, r, "hang"), r.name),
                     "regime %s exceeded the step budget" % r.name)
            return res
    for r in regimes[1:]:
        if r.exc != base.exc:
            res.viol("C05:%s:pull-vs-%s:exception-differs" % (culprit(sc, base, r, "exc"), r.name),
                     "pull gives exception %s (outputs %r), %s gives exception %s (outputs %r)"
                     % (base.exc, base.out[:3], r.name, r.exc, r.out[:3]))
            return res
        if base.exc is not None:
            continue
        if r.fills != base.fills:
            res.viol("C05:%s:pull-vs-%s:fills-differ" % (culprit(sc, base, r, "fills"), r.name),
                     "the accumulator was filled with %r under pull but with %r under %s"
                     % (base.fills, r.fills, r.name))
            return res
        if r.out != base.out:
            res.viol("C05:%s:pull-vs-%s:outputs-differ" % (culprit(sc, base, r, "out"), r.name),
                     "pull yields %r, %s yields %r" % (base.out, r.name, r.out))
            return res
    if any(st[0] == "callcount" for st in sc.pre) and base.exc is None and not res.violations:
        res.probe("deep-copied-sequence-with-stateful-element")
        r = drive("push-on-deepcopy", sc, push_on_deepcopy(sc), res)
        exp = base.out + ["<then the original>"] + base.out
        if r.exc is not None or r.out != exp:
            res.viol("C05:stateful-callable:deep-copied-sequence-shares-state-with-the-original",
                     "a deep copy of the FillComputeSeq and then the original were filled with the same "
                     "flow; each should yield %r, they yielded %r (exception %s)" % (base.out, r.out, r.exc))
            return res
    return res


def culprit(sc, base, r, what):
    """Name the element kind most likely responsible: the first pre-element
    after which the streams of the two regimes differ, else the accumulator
    or the post part."""
    if what in ("fills", "hang", "exc") and sc.pre:
        # localise with chain prefixes ending in a probe accumulator
        for j in range(1, len(sc.pre) + 1):
            sub = Spec()
            sub.__dict__.update(sc.__dict__)
            sub.pre = sc.pre[:j]
            sub.post = []
            sub.acc = "probe"
            sub.vector = sc.vector
            sub.watch = False
            dummy = RunResult()
            try:
                a = drive("pull", sub, pull(sub), dummy)
                fn = {"push-FillComputeSeq": push_fcs, "push-FillSeq": push_fillseq,
                      "split": blocked}[r.name]
                b = drive(r.name, sub, fn(sub), dummy)
            except Exception:  # noqa: BLE001
                break
            if a.fills != b.fills or a.exc != b.exc or a.hang != b.hang:
                return {"call": "callable", "variable": "Variable", "filter": "Filter",
                        "slice": "Slice", "runif": "RunIf",
                        "callnone": "callable-returning-None",
                        "callgen": "callable-returning-a-generator",
                        "callraise": "callable-raising-a-Lena-exception",
                        "callcount": "stateful-callable",
                        "builtin": "builtin-callable", "compose": "Variable"}.get(sc.pre[j - 1][0], sc.pre[j - 1][0])
    if what == "out" and sc.post:
        return "post-" + sc.acc
    return "acc-" + sc.acc


# ---------------------------------------------------------------------------
# adapters

class Obj(object):
    """Element with differently named methods; built per case."""


class ObjCallable(Obj):
    """the same with a standard __call__ that must not be used when a name is given"""

    def __call__(self, *args):
        if args:
            return ("decoy", args[0])
        return iter([("decoy",)])


class ObjEmpty(Obj):
    """an element that is also an empty container"""

    def __len__(self):
        return 0


class ObjCallableEmpty(ObjCallable):
    def __len__(self):
        return 0


FALSY = [False]


def make_obj(A, decoy):
    if not decoy:
        return ObjEmpty() if FALSY[0] else Obj()
    if FALSY[0]:
        o = ObjCallableEmpty() if A in ("Call", "SourceEl") else ObjEmpty()
    else:
        o = ObjCallable() if A in ("Call", "SourceEl") else Obj()
    if A == "Run":
        o.run = lambda fl: iter([("decoy",)])
    elif A == "FillInto":
        o.fill_into = lambda el, v: el.fill(("decoy", v))
    elif A == "FillCompute":
        o.fill = lambda v: None
        o.compute = lambda: iter([("decoy",)])
    return o


def adapter_case2(sc, res):
    """cases 8-11: a renamed method used through a surrounding sequence, and ill-typed
    arguments of an element that does have the standard method"""
    A = sc.adapter
    name = sc.mname
    flow = list(range(sc.n))
    c = sc.case
    decoy = getattr(sc, "decoy", False)
    o = make_obj(A, True if c >= 10 else decoy)
    store = []
    if c >= 10:
        # the element has the standard method, but the method that was named is missing (10)
        # or is not callable (11): LenaTypeError at construction, nothing else
        if c == 11:
            setattr(o, name, 5)
        kw = {"Call": "call", "Run": "run", "FillInto": "fill_into", "FillCompute": "fill",
              "SourceEl": "call"}[A]
        getattr(lena.core, A)(o, **{kw: name})
        return True, None, None
    res.probe("adapter-renamed-method")
    if A == "Call":
        setattr(o, name, lambda v: ("c", v))
        s = lena.core.Sequence(lambda v: v + 1, lena.core.Call(o, call=name))
        if c == 8:
            return False, list(s.run(iter(flow))), [("c", v + 1) for v in flow]
        fs = lena.core.FillComputeSeq(lena.core.Call(o, call=name), lena.flow.StoreFilled())
        for v in flow:
            fs.fill(v)
        return False, list(fs.compute()), [[("c", v) for v in flow]]
    if A == "Run":
        def gen(fl):
            for v in fl:
                yield ("r", v)
        setattr(o, name, gen)
        if c == 8:
            s = lena.core.Sequence(lena.core.Run(o, run=name), lambda r: ("post", r))
            return False, list(s.run(iter(flow))), [("post", ("r", v)) for v in flow]
        s = lena.core.Source(lena.core.SourceEl(lambda: iter(flow)), lena.core.Run(o, run=name))
        return False, list(s()), [("r", v) for v in flow]
    if A == "FillInto":
        def fi(element, value):
            if value % 2 == 0:
                element.fill(("fi", value))
        setattr(o, name, fi)
        sink = lena.flow.StoreFilled()
        ad = lena.core.FillInto(o, fill_into=name)
        if c == 8:
            fs = lena.core.FillSeq(ad, sink)
            for v in flow:
                fs.fill(v)
            return False, sink.group, [("fi", v) for v in flow if v % 2 == 0]
        fcs = lena.core.FillComputeSeq(ad, sink)
        for v in flow:
            fcs.fill(v)
        return False, list(fcs.compute()), [[("fi", v) for v in flow if v % 2 == 0]]
    if A == "FillCompute":
        setattr(o, name, store.append)
        setattr(o, name + "_c", lambda: iter([tuple(store)]))
        ad = lena.core.FillCompute(o, fill=name, compute=name + "_c")
        if c == 8:
            # driven by run: Run(FillCompute(...)) and a Sequence around it
            got = list(lena.core.Sequence(ad, lambda r: ("post", r)).run(iter(flow)))
            return False, got, [("post", tuple(flow))]
        sp = lena.core.Split([lena.core.FillComputeSeq(ad)], bufsize=2)
        return False, list(sp.run(iter(flow))), [tuple(flow)]
    if c == 9 and not decoy:
        # an element that is both callable and iterable (every lena Source is): it is called
        src = lena.core.Source(lena.core.SourceEl(lambda: iter(flow)), lambda v: ("inner", v))
        return False, list(lena.core.SourceEl(src)()), [("inner", v) for v in flow]
    setattr(o, name, lambda: iter([("s", v) for v in flow]))
    if c == 8:
        s = lena.core.Source(lena.core.SourceEl(o, call=name), lambda v: ("post", v))
        return False, list(s()), [("post", ("s", v)) for v in flow]
    sp = lena.core.Split([lena.core.Source(lena.core.SourceEl(o, call=name))])
    return False, list(sp()), [("s", v) for v in flow]


# cases of adapter_case in which a valid method name is given (a decoy standard method may be added)
VALID_NAMED = {"Call": (0, 1, 6, 7), "Run": (0, 1), "FillInto": (0, 1), "FillCompute": (0, 1, 6, 7),
               "SourceEl": (0, 1, 6)}


class Boxed(object):
    """a class whose instances are callable too (Call(Boxed)(v) must be Boxed(v))"""

    def __init__(self, v):
        self.v = v

    def __call__(self, w):
        return ("boxed-instance-called", self.v, w)

    def __eq__(self, other):
        return type(other) is Boxed and other.v == self.v

    def __ne__(self, other):
        return not self == other

    __hash__ = None

    def __repr__(self):
        return "Boxed(%r)" % (self.v,)


def adapter_case(sc, res):
    A = sc.adapter
    name = sc.mname
    n = sc.n
    flow = list(range(n))
    if getattr(sc, "decoy", False):
        res.probe("adapter-decoy-standard-method")
    FALSY[0] = bool(getattr(sc, "falsy", False))
    if FALSY[0]:
        res.probe("adapter-element-is-falsy")
    res.say("adapter %s, case %d, method name %r, flow %r" % (A, sc.case, name, flow))
    res.nontrivial = True
    log = res.log
    ill = False
    expect = None
    got = None
    exc = None
    try:
        if sc.case >= 8:
            ill = sc.case >= 10
            _, got, expect = adapter_case2(sc, res)
        elif A == "Call":
            o = make_obj(A, getattr(sc, "decoy", False) and sc.case in VALID_NAMED[A])
            if sc.case in (0, 1):
                setattr(o, name, lambda v: ("c", v))
                ad = lena.core.Call(o, call=name)
                got = [ad(v) for v in flow]
                expect = [("c", v) for v in flow]
                res.probe("adapter-renamed-method")
            elif sc.case == 2 and n % 3 == 1:
                # a class is a callable: Call(cls)(v) is cls(v), whatever cls defines for its instances
                res.probe("adapter-call-of-a-class-with-instance-call")
                ad = lena.core.Call(Boxed)
                got = [ad(v) for v in flow]
                expect = [Boxed(v) for v in flow]
            elif sc.case == 2:
                ad = lena.core.Call(lambda v: ("f", v))
                got = [ad(v) for v in flow]
                expect = [("f", v) for v in flow]
            elif sc.case == 3:
                ill = True
                if n % 2:
                    # an attribute called __call__ on the instance does not make it callable
                    res.probe("adapter-call-instance-attribute-dunder-call")
                    o.__call__ = lambda v: ("i", v)
                lena.core.Call(o)                      # not callable, no name
            elif sc.case == 4:
                ill = True
                lena.core.Call(o, call=name)           # missing method
            elif sc.case == 5:
                ill = True
                setattr(o, name, 5)
                lena.core.Call(o, call=name)           # attribute not callable
            else:
                # used in a Sequence: same as the function itself
                setattr(o, name, lambda v: v + 1)
                s = lena.core.Sequence(lena.core.Call(o, call=name), lambda v: v * 2)
                got = list(s.run(iter(flow)))
                expect = [(v + 1) * 2 for v in flow]
                res.probe("adapter-renamed-method")
        elif A == "Run":
            o = make_obj(A, getattr(sc, "decoy", False) and sc.case in VALID_NAMED[A])
            if sc.case in (0, 1):
                def gen(fl):
                    for v in fl:
                        yield ("r", v)
                        if v % 2:
                            yield ("r2", v)
                setattr(o, name, gen)
                ad = lena.core.Run(o, run=name)
                got = list(ad.run(iter(flow)))
                expect = list(gen(iter(flow)))
                res.probe("adapter-renamed-method")
            elif sc.case == 2:
                ad = lena.core.Run(lambda v: ("f", v))
                got = list(ad.run(iter(flow)))
                expect = [("f", v) for v in flow]
            elif sc.case == 3:
                s = lena.math.Sum()
                ad = lena.core.Run(s)
                got = list(ad.run(iter(flow)))
                expect = [sum(flow)]
            elif sc.case == 4:
                ill = True
                lena.core.Run(o)
            elif sc.case == 5:
                ill = True
                lena.core.Run(o, run=name)
            elif sc.case == 6:
                def gen2(fl):
                    for v in fl:
                        yield v + 10
                ad = lena.core.Run(None, run=gen2)
                got = list(ad.run(iter(flow)))
                expect = [v + 10 for v in flow]
            else:
                ill = True
                setattr(o, name, 3)
                lena.core.Run(o, run=name)
        elif A == "FillInto":
            o = make_obj(A, getattr(sc, "decoy", False) and sc.case in VALID_NAMED[A])
            sink = lena.flow.StoreFilled()
            if sc.case in (0, 1):
                def fi(element, value):
                    if value % 2 == 0:
                        element.fill(("fi", value))
                setattr(o, name, fi)
                ad = lena.core.FillInto(o, fill_into=name)
                for v in flow:
                    ad.fill_into(sink, v)
                got = sink.group
                expect = [("fi", v) for v in flow if v % 2 == 0]
                res.probe("adapter-renamed-method")
            elif sc.case == 2:
                ad = lena.core.FillInto(lambda v: ("f", v))
                for v in flow:
                    ad.fill_into(sink, v)
                got = sink.group
                expect = [("f", v) for v in flow]
            elif sc.case == 3:
                ri = lena.flow.RunIf(lambda v: v % 2 == 0, lambda v: ("sel", v))
                ad = lena.core.FillInto(ri)
                for v in flow:
                    ad.fill_into(sink, v)
                got = sink.group
                expect = [("sel", v) if v % 2 == 0 else v for v in flow]
            elif sc.case == 4:
                ill = True
                lena.core.FillInto(o)
            elif sc.case == 5:
                ill = True
                lena.core.FillInto(o, fill_into=name)
            elif sc.case == 6:
                ill = True
                # a run element that cannot break the flow is not convertible
                class R(object):
                    def run(self, fl):
                        return fl
                lena.core.FillInto(R())
            else:
                fs = lena.core.FillSeq(lena.flow.Filter(lambda v: v % 3 != 0), lambda v: v + 1, sink)
                for v in flow:
                    fs.fill(v)
                got = sink.group
                expect = [v + 1 for v in flow if v % 3 != 0]
        elif A == "FillCompute":
            o = make_obj(A, getattr(sc, "decoy", False) and sc.case in VALID_NAMED[A])
            store = []
            if sc.case in (0, 1, 6, 7):
                setattr(o, name, store.append)
                setattr(o, name + "_c", lambda: iter([tuple(store)]))
                ad = lena.core.FillCompute(o, fill=name, compute=name + "_c")
                for v in flow:
                    ad.fill(v)
                got = list(ad.compute())
                expect = [tuple(flow)]
                res.probe("adapter-renamed-method")
            elif sc.case == 2 and n % 2:
                # the wrapped element has a run method as well (as lena.flow.Count has): in a
                # linear Sequence the adapter is still the fill/compute element it was made to be
                res.probe("adapter-fillcompute-of-an-element-that-also-has-run")
                o.fill = store.append
                o.request = lambda: iter([("req", tuple(store))])
                o.run = lambda fl: iter([("decoy-run",)])
                s = lena.core.Sequence(lena.core.FillCompute(o))
                got = list(s.run(iter(flow)))
                expect = [("req", tuple(flow))]
            elif sc.case == 2:
                # derived from a fill/request element
                o.fill = store.append
                o.request = lambda: iter([("req", tuple(store))])
                ad = lena.core.FillCompute(o)
                for v in flow:
                    ad.fill(v)
                got = list(ad.compute())
                expect = [("req", tuple(flow))]
            elif sc.case == 3:
                ill = True
                lena.core.FillCompute(o)
            elif sc.case == 4:
                ill = True
                o.fill = store.append
                lena.core.FillCompute(o)               # no compute, no request
            else:
                ill = True
                o.compute = lambda: iter([])
                lena.core.FillCompute(o, fill=name)    # missing fill
        else:
            o = make_obj(A, getattr(sc, "decoy", False) and sc.case in VALID_NAMED[A])
            if sc.case in (0, 1):
                setattr(o, name, lambda: iter([("s", v) for v in flow]))
                ad = lena.core.SourceEl(o, call=name)
                got = list(ad())
                expect = [("s", v) for v in flow]
                res.probe("adapter-renamed-method")
            elif sc.case == 2:
                ad = lena.core.SourceEl(lambda: iter(flow))
                got = list(ad())
                expect = flow
            elif sc.case == 3:
                ad = lena.core.SourceEl(flow)
                got = list(ad())
                expect = flow
            elif sc.case == 4:
                ill = True
                lena.core.SourceEl(o)
            elif sc.case == 5:
                ill = True
                lena.core.SourceEl(o, call=name)
            elif sc.case == 6:
                setattr(o, name, lambda: iter(flow))
                s = lena.core.Source(lena.core.SourceEl(o, call=name), lambda v: v * 3)
                got = list(s())
                expect = [v * 3 for v in flow]
                res.probe("adapter-renamed-method")
            else:
                ill = True
                setattr(o, name, 7)
                lena.core.SourceEl(o, call=name)
    except Exception as e:  # noqa: BLE001
        exc = e
    log.ev("adapter", A, "case%d" % sc.case, name, type(exc).__name__ if exc else "ok",
           summarize(got))
    if ill:
        res.fault("ill-typed-adapter-argument")
        res.probe("adapter-ill-typed")
        if not isinstance(exc, lena.core.LenaTypeError):
            res.viol("C05:%s:ill-typed-argument:%s" % (
                A, "accepted" if exc is None else "raises-" + type(exc).__name__),
                "case %d: expected LenaTypeError at construction, got %r" % (sc.case, exc))
        return
    if exc is not None:
        if exception_origin(exc) != "lena":
            raise exc
        res.viol("C05:%s:valid-argument:raises-%s" % (A, type(exc).__name__),
                 "case %d: %r" % (sc.case, exc))
        return
    if got != expect:
        res.viol("C05:%s:meaning-not-preserved" % A,
                 "case %d with method name %r: expected %r, got %r" % (sc.case, name, expect, got))
