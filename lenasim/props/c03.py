"""C03 - Split.run follows its documented block/branch schedule.

Split as a block scheduler of branch tasks.  Every call on a branch goes
to the global event log; LenaStopFill is injected at drawn fill indices;
the whole history (pulls, fills, requests, computes, runs, calls, outs)
is compared with an executable reference scheduler driving model
branches built from the same specification.  See DESIGN.md 3, C03.
"""
import itertools

import lena.core
import lena.flow
import lena.math

from ..kernel import RunResult, Log, summarize
from ..seams.flow import (Tok, SimSource, ProbeCall, ProbeFC, ProbeFR, ProbeSrc,
                          ProbeStopFillInto, ProbeRunMulti, Pred, tok_of)

PROPERTY = "C03"
LEVEL = "fault_enumeration"
SWEEP = True
N_RUNS = {"quick": 300000, "thorough": 6000000}
RULE = ("each run draws 0-4 Split branches of the four kinds (Source, fill/compute, fill/request, "
        "plain Sequence; given as explicit sequences, tuples or bare elements; with map / filter / "
        "Slice / stop-fill pre-elements and map post-elements), bufsize in {1,2,3,len+1,1000,None}, "
        "copy_buf, a flow of 0-8 values and a LenaStopFill plan (per branch: none or at fill k, "
        "swept over every k in the thorough tier), runs the real Split.run and an executable "
        "reference scheduler over model branches and compares the complete event histories; one "
        "run in four exercises the common-type API (fill/compute, fill/request, __call__) or Zip "
        "instead; non-trivial = at least two branches or a stop, and a non-empty history; distinct = "
        "distinct abstracted event-kind sequences."
        " Since the seeded rounds also: post-elements that yield None, a branch element raising a"
        " Lena exception that is not a stop (must propagate), nested mixed Splits as branches, the"
        " same branch object listed twice, Zip with field names, the same Split run twice."
        " Also: Source branches of a user's subclass of Source; the order in which Zip and"
        " Split.fill turn to their branches and whether the flow is read on when no branch is"
        " active are not fixed by the statement (outputs and per-branch histories are compared"
        " then).")
REAL = ["lena.core.Split", "lena.flow.Zip", "lena.core.Sequence", "lena.core.Source",
        "lena.core.FillComputeSeq", "lena.core.FillRequestSeq", "lena.core.FillSeq",
        "lena.core.FillInto/Run adapters", "lena.flow.Slice", "lena.flow.Filter", "copy.deepcopy"]
STUB = ["SimSource (input flow)", "probe elements of every branch kind (log every call, tag every "
        "output, raise LenaStopFill at a planned fill)", "consumer",
        "reference scheduler + model branches (the oracle)"]
ASSUMPTIONS = [
    "the reference scheduler is the documented schedule of Split.run written as ~40 lines of "
    "generators over model branches; model branches reuse the probe classes (stubs) but no "
    "lena code",
    "copy_buf has no observable effect here because no branch mutates its input (C04 covers that)",
]
FAULT_KINDS = ["branch-raises-other-lena-exception", "LenaStopFill-from-probe", "LenaStopFill-from-Slice", "LenaStopFill-from-fill_into",
               "empty-flow"]
EXPECTED_PROBES = ["stop-in-last-slot-of-block", "two-branches-stop-in-same-block",
                   "source-branch-after-first-block", "empty-flow-all-kinds", "common-type-fill-compute",
                   "common-type-fill-request", "common-type-call", "zip", "zip-with-fields", "nested-mixed-split-as-branch", "empty-split",
                   "fr-tuple-bufsize-none", "multi-block", "same-split-run-twice", "source-of-a-container-called-twice",
                   "accumulator-inside-explicit-sequence", "same-branch-object-listed-twice",
                   "no-branch-active-before-the-flow-ends"]


class Spec(object):
    pass


def gen_pre(tape, allow_stop):
    pre = []
    for _ in range(tape.weighted([(3, 0), (3, 1), (1, 2)], "npre")):
        kinds = [(3, "map"), (2, "filter")]
        if allow_stop:
            kinds += [(2, "slice"), (1, "stopfill")]
        k = tape.weighted(kinds, "prekind")
        if k == "filter":
            pre.append(("filter", tape.choice([0xFF, 0xFE, 0x55, 0xAA, 0x00], "mask")))
        elif k in ("slice", "stopfill"):
            pre.append((k, tape.draw(7, "stop-k", sweep=True)))
        else:
            pre.append(("map",))
    return pre


def gen_branch(tape, name, kinds, allow_stop=True):
    b = Spec()
    b.name = name
    b.kind = tape.weighted(kinds, "branch-kind")
    if b.kind == "nested":
        # a Split of branches without a common type used as a branch: it is a run element, run on
        # every block like a plain Sequence
        b.pre, b.npost, b.stop_at, b.results, b.form, b.none_at, b.err_at = [], 0, None, 1, "explicit", None, None
        b.sub = [gen_branch(tape, name + "n0", [(1, "fc")], allow_stop=False),
                 gen_branch(tape, name + "n1", [(1, "seq")], allow_stop=False)]
        if tape.draw(2, "nested-order"):
            b.sub.reverse()
        b.inner = tape.choice([1000, 1, 2], "nested-bufsize")
        return b
    b.pre = []
    b.npost = 0
    b.stop_at = None
    b.results = 1
    b.form = "explicit"
    b.none_at = None
    b.err_at = None
    if b.kind == "source":
        b.m = tape.draw(3, "src-m")
        b.npost = tape.draw(2, "src-post")
        # an instance of a user's subclass of Source is a Source
        b.subclass = tape.chance(1, 3, "source-subclass")
        # the first element of the Source is a container that can be iterated again and again
        # (a list of file names), not a callable
        b.iterable = tape.chance(1, 3, "source-of-a-container")
    elif b.kind in ("fc", "fr"):
        b.pre = gen_pre(tape, allow_stop)
        b.npost = tape.draw(3, "npost")
        b.results = 1 + tape.draw(2, "results")
        if allow_stop and tape.chance(1, 3, "probe-stop"):
            b.stop_at = tape.draw(7, "stop-at", sweep=True)
        elif allow_stop and tape.chance(1, 10, "probe-error"):
            # a Lena exception that is not LenaStopFill: it is an error, not "this branch has enough"
            b.err_at = tape.draw(7, "error-at", sweep=True)
        b.form = tape.choice(["tuple", "explicit", "bare"], "form")
        if b.form == "bare" and (b.pre or b.npost):
            b.form = "tuple"
        # the last post-element maps its k-th result to None: None is a result like any other
        if b.npost and tape.chance(1, 5, "post-yields-None"):
            b.none_at = tape.draw(3, "none-at")
    else:
        b.stages = []
        for _ in range(1 + tape.draw(3, "nstages")):
            k = tape.weighted([(3, "map"), (2, "filter"), (2, "multi")], "stage")
            if k == "filter":
                b.stages.append(("filter", tape.choice([0xFF, 0xFE, 0x55, 0xAA, 0x00], "mask")))
            elif k == "multi":
                b.stages.append(("multi", tape.draw(3, "per"), bool(tape.draw(2, "trailer"))))
            else:
                b.stages.append(("map",))
        b.form = tape.choice(["tuple", "explicit", "single"], "form")
        if tape.chance(1, 4, "fc-inside-sequence"):
            # an accumulator used as a run element of an explicit Sequence: filled with
            # every block, computed after every block
            b.stages.insert(tape.draw(len(b.stages) + 1, "fc-pos"), ("fc", 1 + tape.draw(2, "fc-results")))
            b.form = "explicit"
    return b


def gen_scenario(tape):
    sc = Spec()
    sc.mode = tape.weighted([(9, "run"), (1, "common-fc"), (1, "common-fr"), (1, "common-src"),
                             (1, "zip-fc"), (1, "zip-fr")], "mode")
    sc.n = tape.draw(9, "flowlen")
    sc.copy_buf = not tape.chance(1, 4, "copy-buf-off")
    if sc.mode == "run":
        nb = tape.weighted([(1, 0), (3, 1), (4, 2), (3, 3), (2, 4)], "nbranches")
        kinds = [(2, "source"), (4, "fc"), (4, "fr"), (4, "seq"), (1, "nested")]
        sc.branches = [gen_branch(tape, "b%d" % i, kinds) for i in range(nb)]
    else:
        nb = 1 + tape.draw(3, "nbranches")
        kind = {"common-fc": "fc", "common-fr": "fr", "common-src": "source",
                "zip-fc": "fc", "zip-fr": "fr"}[sc.mode]
        sc.branches = [gen_branch(tape, "b%d" % i, [(1, kind)], allow_stop=False)
                       for i in range(nb)]
    # the same branch object listed twice (every entry of the list is a branch of its own)
    sc.dup = None
    if sc.mode == "run" and nb >= 2 and tape.chance(1, 6, "same-branch-twice"):
        j = 1 + tape.draw(nb - 1, "dup-j")
        sc.dup = (tape.draw(j, "dup-i"), j)
    sc.bufsize = tape.choice([1000, None, 1, 2, 3, sc.n + 1], "bufsize")
    sc.zip_fields = sc.mode.startswith("zip") and tape.chance(1, 3, "zip-fields")
    sc.second_run = None
    if sc.mode == "run" and tape.chance(1, 4, "second-run"):
        sc.second_run = tape.draw(9, "flowlen2")
    return sc


def describe_branch(b):
    if b.kind == "nested":
        return "%s=Split([%s], bufsize=%s) used as a branch" % (
            b.name, "; ".join(describe_branch(x) for x in b.sub), b.inner)
    if b.kind == "source":
        return "%s=Source(m=%d, post=%d)" % (b.name, b.m, b.npost)
    if b.kind in ("fc", "fr"):
        return "%s=%s[%s](pre=%s, post=%d, results=%d, probe_stop_at=%s)" % (
            b.name, b.kind, b.form, b.pre, b.npost, b.results, b.stop_at)
    return "%s=seq[%s](%s)" % (b.name, b.form, b.stages)


class NoneAt(object):
    """post function: the k-th result becomes None"""

    def __init__(self, name, k):
        self.name = name
        self.k = k
        self.n = 0

    def __call__(self, value):
        n = self.n
        self.n += 1
        if n == self.k:
            return None
        return (self.name, value)


def post_calls(b, log):
    out = []
    for j in range(b.npost):
        nm = "%s.post%d" % (b.name, j)
        fn = None
        if j == b.npost - 1 and getattr(b, "none_at", None) is not None:
            fn = NoneAt(nm, b.none_at)
        out.append(ProbeCall(log, nm, fn=fn))
    return out


# ---------------------------------------------------------------------------
# real branches

class IterSrc(object):
    """a container as first element of a Source: every iteration starts from the beginning
    (what ProbeSrc does per call, this one does per iter())"""

    def __init__(self, log, name, m):
        self._probe = ProbeSrc(log, name, m)

    def __iter__(self):
        return self._probe()


class SourceSub(lena.core.Source):
    """a user's subclass of Source"""


def real_branch(b, log):
    if b.kind == "nested":
        return lena.core.Split([real_branch(x, log) for x in b.sub], bufsize=b.inner)
    if b.kind == "source":
        els = [(IterSrc if getattr(b, "iterable", False) else ProbeSrc)(log, b.name + ".src", b.m)]
        els += post_calls(b, log)
        if getattr(b, "subclass", False):
            return SourceSub(*els)
        return lena.core.Source(*els)
    if b.kind in ("fc", "fr"):
        els = []
        for j, st in enumerate(b.pre):
            nm = "%s.pre%d" % (b.name, j)
            if st[0] == "map":
                els.append(ProbeCall(log, nm))
            elif st[0] == "filter":
                els.append(lena.flow.Filter(Pred(log, nm, st[1])))
            elif st[0] == "slice":
                els.append(lena.flow.Slice(st[1]))
            else:
                els.append(ProbeStopFillInto(log, nm, st[1]))
        if b.kind == "fc":
            probe = ProbeFC(log, b.name + ".fc", stop_at=b.stop_at, results=b.results, err_at=getattr(b, "err_at", None))
        else:
            probe = ProbeFR(log, b.name + ".fr", stop_at=b.stop_at, results=b.results, err_at=getattr(b, "err_at", None))
        els.append(probe)
        els += post_calls(b, log)
        if b.form == "bare":
            return probe
        if b.form == "tuple":
            return tuple(els)
        if b.kind == "fc":
            return lena.core.FillComputeSeq(*els)
        return lena.core.FillRequestSeq(*els, bufsize=1, reset=False, buffer_input=True)
    els = []
    for j, st in enumerate(b.stages):
        nm = "%s.s%d" % (b.name, j)
        if st[0] == "map":
            els.append(ProbeCall(log, nm))
        elif st[0] == "filter":
            els.append(lena.flow.Filter(Pred(log, nm, st[1])))
        elif st[0] == "fc":
            els.append(ProbeFC(log, nm, results=st[1]))
        else:
            els.append(ProbeRunMulti(log, nm, per=st[1], trailer=st[2]))
    if b.form == "single" and len(els) == 1:
        return els[0]
    if b.form == "explicit":
        return lena.core.Sequence(*els)
    return tuple(els)


# ---------------------------------------------------------------------------
# model branches (no lena code)

class StopFill(Exception):
    pass


class MBranch(object):
    def __init__(self, b, log):
        self.b = b
        self.kind = b.kind
        self.log = log
        if b.kind == "nested":
            # scheduled like a plain Sequence; its run is the reference scheduler itself
            self.kind = "seq"
            self.nested = [MBranch(x, log) for x in b.sub]
            return
        if b.kind == "source":
            self.src = ProbeSrc(log, b.name + ".src", b.m)
        elif b.kind in ("fc", "fr"):
            self.pre = []
            for j, st in enumerate(b.pre):
                nm = "%s.pre%d" % (b.name, j)
                if st[0] == "map":
                    self.pre.append(("map", ProbeCall(log, nm)))
                elif st[0] == "filter":
                    self.pre.append(("filter", Pred(log, nm, st[1])))
                elif st[0] == "slice":
                    self.pre.append(("slice", [0, st[1]]))
                else:
                    self.pre.append(("stopfill", [0, st[1], nm]))
            if b.kind == "fc":
                self.probe = ProbeFC(log, b.name + ".fc", stop_at=b.stop_at, results=b.results, err_at=getattr(b, "err_at", None))
            else:
                self.probe = ProbeFR(log, b.name + ".fr", stop_at=b.stop_at, results=b.results, err_at=getattr(b, "err_at", None))
        else:
            self.stages = []
            for j, st in enumerate(b.stages):
                nm = "%s.s%d" % (b.name, j)
                if st[0] == "map":
                    self.stages.append(("map", ProbeCall(log, nm)))
                elif st[0] == "filter":
                    self.stages.append(("filter", Pred(log, nm, st[1])))
                elif st[0] == "fc":
                    self.stages.append(("fc", ProbeFC(log, nm, results=st[1])))
                else:
                    self.stages.append(("multi", ProbeRunMulti(log, nm, per=st[1], trailer=st[2])))
        if b.kind != "seq":
            self.post = post_calls(b, log)

    # fill path: value goes through the pre-elements into the probe
    def fill(self, v):
        self._fill_from(0, v)

    def _fill_from(self, j, v):
        if j == len(self.pre):
            try:
                self.probe.fill(v)
            except lena.core.LenaStopFill:
                raise StopFill()
            return
        kind, st = self.pre[j]
        if kind == "map":
            self._fill_from(j + 1, st(v))
        elif kind == "filter":
            if st(v):
                self._fill_from(j + 1, v)
        elif kind == "slice":
            # Slice(k) lets k values through and signals a stop at the next one
            if st[0] >= st[1]:
                raise StopFill()
            self._fill_from(j + 1, v)
            st[0] += 1
        else:
            k = st[0]
            st[0] += 1
            if k >= st[1]:
                self.log.ev("stopfill", st[2], k)
                raise StopFill()
            self._fill_from(j + 1, v)

    def _posted(self, gen):
        for r in gen:
            for p in self.post:
                r = p(r)
            yield r

    def compute(self):
        return self._posted(self.probe.compute())

    def request(self):
        return self._posted(self.probe.request())

    def call(self):
        return self._posted(self.src())

    def run(self, block):
        if self.b.kind == "nested":
            return ref_split_run(self.nested, block, self.b.inner)
        flow = iter(block)
        for kind, st in self.stages:
            if kind == "map":
                flow = _map(st, flow)
            elif kind == "filter":
                flow = _filter(st, flow)
            elif kind == "fc":
                flow = _fc(st, flow)
            else:
                flow = st.run(flow)
        return flow


def _map(f, flow):
    for v in flow:
        yield f(v)


def _fc(probe, flow):
    # a fill/compute element run as an element of a Sequence
    for v in flow:
        probe.fill(v)
    for r in probe.compute():
        yield r


def _filter(p, flow):
    for v in flow:
        if p(v):
            yield v


def ref_split_run(branches, flow, bufsize, read_on=True):
    """The documented schedule of Split.run.

    read_on: when no branch is active any more (all Sources were called, every other branch
    stopped) the rest of the flow is still read (and ignored); the statement says nothing about
    that, so the schedule that stops reading there is accepted as well."""
    if not branches:
        for v in flow:
            yield v
        return
    # entries, not objects: the same object may be listed twice
    active = list(enumerate(branches))
    flow = iter(flow)
    empty = True
    while True:
        block = list(itertools.islice(flow, bufsize))
        if not block:
            break
        empty = False
        for ent in list(active):
            br = ent[1]
            if br.kind == "source":
                for r in br.call():
                    yield r
                active.remove(ent)
            elif br.kind == "fc":
                stopped = False
                for v in block:
                    try:
                        br.fill(v)
                    except StopFill:
                        stopped = True
                        break
                if stopped:
                    for r in br.compute():
                        yield r
                    active.remove(ent)
            elif br.kind == "fr":
                stopped = False
                for v in block:
                    try:
                        br.fill(v)
                    except StopFill:
                        stopped = True
                        break
                for r in br.request():
                    yield r
                if stopped:
                    active.remove(ent)
            else:
                for r in br.run(block):
                    yield r
        if not active and not read_on:
            return
    for _, br in active:
        if br.kind == "source":
            for r in br.call():
                yield r
        elif br.kind == "fc":
            for r in br.compute():
                yield r
        elif br.kind == "fr":
            if empty:
                for r in br.request():
                    yield r
        else:
            if empty:
                for r in br.run([]):
                    yield r


# ---------------------------------------------------------------------------

def consume(gen, log):
    k = 0
    for v in gen:
        log.ev("out", k, summarize(v))
        k += 1
    log.ev("end", k)


def run(tape):
    res = RunResult()
    sc = gen_scenario(tape)
    res.say("mode=%s flow=%d values bufsize=%s copy_buf=%s%s" % (
        sc.mode, sc.n, sc.bufsize, sc.copy_buf,
        "" if sc.second_run is None else "; then the same Split is run again on %d values" % sc.second_run))
    for b in sc.branches:
        res.say("  " + describe_branch(b))
    if getattr(sc, "dup", None):
        res.say("  entry %d of the list is the same object as entry %d" % (sc.dup[1], sc.dup[0]))
    if sc.mode == "run":
        run_mode(sc, res)
    elif sc.mode.startswith("common"):
        common_mode(sc, res)
    else:
        zip_mode(sc, res)
    return res


def _exc_event(log, e):
    log.ev("raise", type(e).__name__)


def run_mode(sc, res):
    log = res.log
    injected = any(getattr(b, "err_at", None) is not None for b in sc.branches)

    def model(read_on):
        mlog = Log()
        # model first (it cannot fail)
        msrc = SimSource(mlog, "src", sc.n, lambda i: Tok(i))
        mbranches = [MBranch(b, mlog) for b in sc.branches]
        if sc.dup:
            mbranches[sc.dup[1]] = mbranches[sc.dup[0]]
        mlog.ev("built")
        try:
            consume(ref_split_run(mbranches, msrc, sc.bufsize, read_on), mlog)
            if sc.second_run is not None:
                # the same Split object is run again on a new flow
                mlog.ev("second-run")
                consume(ref_split_run(mbranches, SimSource(mlog, "src2", sc.second_run,
                                                           lambda i: Tok(100 + i)), sc.bufsize, read_on), mlog)
        except lena.core.LenaValueError:
            # the injected error of a branch: it ends the run of the reference scheduler too
            mlog.ev("propagated", "LenaValueError")
        return mlog
    mlog = model(True)
    mlog_stop_reading = model(False)
    # real
    src = SimSource(log, "src", sc.n, lambda i: Tok(i))
    try:
        rbranches = [real_branch(b, log) for b in sc.branches]
        if sc.dup:
            rbranches[sc.dup[1]] = rbranches[sc.dup[0]]
            res.probe("same-branch-object-listed-twice")
        split = lena.core.Split(rbranches, bufsize=sc.bufsize, copy_buf=sc.copy_buf)
        log.ev("built")
        consume(split.run(src), log)
        if sc.second_run is not None:
            log.ev("second-run")
            res.probe("same-split-run-twice")
            consume(split.run(SimSource(log, "src2", sc.second_run, lambda i: Tok(100 + i))), log)
    except Exception as e:  # noqa: BLE001
        from ..kernel import exception_origin, exception_site
        if injected and isinstance(e, lena.core.LenaValueError) and "injected at fill" in str(e):
            log.ev("propagated", "LenaValueError")
            res.fault("branch-raises-other-lena-exception")
        else:
            if exception_origin(e) != "lena":
                raise
            res.viol("C03:Split.run:%s:unexpected-exception:%s@%s" % (
                _mix(sc), type(e).__name__, exception_site(e)), repr(e)[:300])
            return
    _probes(sc, res, mlog)
    if mlog_stop_reading.events != mlog.events:
        res.probe("no-branch-active-before-the-flow-ends")
        if log.events == mlog_stop_reading.events:
            return
    compare(sc, res, log.events, mlog.events, "Split.run")


def _mix(sc):
    kinds = sorted(set(b.kind for b in sc.branches))
    return "+".join(kinds) if kinds else "empty"


def _probes(sc, res, mlog):
    ev = mlog.events
    stops = [e for e in ev if e[0] == "stopfill"]
    nonempty = sum(1 for e in ev if e[0] not in ("built", "end", "pull-end"))
    if (len(sc.branches) >= 2 or stops) and nonempty:
        res.nontrivial = True
    for e in stops:
        src = e[1]
        if src.endswith(".fc") or src.endswith(".fr"):
            res.fault("LenaStopFill-from-probe")
        else:
            res.fault("LenaStopFill-from-fill_into")
    # Slice stops leave no event of their own: count them from the spec
    for b in sc.branches:
        if b.kind in ("fc", "fr") and any(st[0] == "slice" and st[1] < sc.n for st in b.pre):
            res.fault("LenaStopFill-from-Slice")
    if sc.n == 0:
        res.fault("empty-flow")
        if len(set(b.kind for b in sc.branches) - set(["nested"])) == 4:
            res.probe("empty-flow-all-kinds")
    if not sc.branches:
        res.probe("empty-split")
    if any(b.kind == "nested" for b in sc.branches):
        res.probe("nested-mixed-split-as-branch")
    if sc.second_run is not None and any(getattr(b, "iterable", False) for b in sc.branches):
        res.probe("source-of-a-container-called-twice")
    if any(b.kind == "seq" and any(st[0] == "fc" for st in b.stages) for b in sc.branches):
        res.probe("accumulator-inside-explicit-sequence")
    B = sc.bufsize
    if B is not None and sc.n > B:
        res.probe("multi-block")
        if any(b.kind == "source" for b in sc.branches[1:]):
            res.probe("source-branch-after-first-block")
    if B is None and any(b.kind == "fr" and b.form == "tuple" for b in sc.branches):
        res.probe("fr-tuple-bufsize-none")
    # stop position relative to blocks
    if B is not None and stops:
        pulls_before = {}
        npull = 0
        per_block = {}
        for e in ev:
            if e[0] == "pull":
                npull += 1
            elif e[0] == "stopfill":
                blk = (npull - 1) // B if npull else 0
                per_block[blk] = per_block.get(blk, 0) + 1
                # the stop was raised by the last value of the block?
                if B > 1 and len(e) > 2 and isinstance(e[2], int) and (e[2] + 1) % B == 0:
                    res.probe("stop-in-last-slot-of-block")
        if any(v >= 2 for v in per_block.values()):
            res.probe("two-branches-stop-in-same-block")


def compare(sc, res, real, model, what):
    if real == model:
        return
    # first divergence
    i = 0
    while i < len(real) and i < len(model) and real[i] == model[i]:
        i += 1
    exp = model[i] if i < len(model) else ("<nothing more>",)
    got = real[i] if i < len(real) else ("<nothing more>",)
    outs_r = [e for e in real if e[0] == "out"]
    outs_m = [e for e in model if e[0] == "out"]
    cls = "output-differs" if outs_r != outs_m else "event-order-differs"

    def bk(e):
        # branch kind of the probe named in the event
        if len(e) > 1 and isinstance(e[1], str) and e[1].startswith("b"):
            name = e[1].split(".")[0]
            for b in sc.branches:
                if b.name == name:
                    return {"fc": "fill_compute", "fr": "fill_request", "seq": "sequence",
                            "source": "source", "nested": "sequence"}[b.kind]
        return "flow"
    stopped = any(e[0] == "stopfill" for e in model[:i + 1]) or any(
        b.kind in ("fc", "fr") and any(st[0] == "slice" for st in b.pre) for b in sc.branches)
    ctx = "empty-flow" if sc.n == 0 else ("after-stop" if stopped else "plain")
    sig = "C03:%s:%s:%s:expected-%s[%s]-got-%s[%s]" % (
        what, ctx, cls, exp[0], bk(exp), got[0], bk(got))
    res.viol(sig, "event #%d: the documented schedule gives %r, the implementation did %r "
             "(outputs %s)" % (i, exp, got, "differ" if cls == "output-differs" else "agree"))


def common_mode(sc, res):
    log = res.log
    mlog = Log()
    kind = sc.branches[0].kind
    vals = [Tok(i) for i in range(sc.n)]
    mbranches = [MBranch(b, mlog) for b in sc.branches]
    mlog.ev("built")
    if kind == "source":
        def mgen():
            for br in mbranches:
                for r in br.call():
                    yield r
        consume(mgen(), mlog)
    else:
        for v in vals:
            for br in mbranches:
                br.fill(v)
        def mgen():
            for br in mbranches:
                for r in (br.compute() if kind == "fc" else br.request()):
                    yield r
        consume(mgen(), mlog)
    try:
        split = lena.core.Split([real_branch(b, log) for b in sc.branches],
                                bufsize=sc.bufsize, copy_buf=sc.copy_buf)
        log.ev("built")
        if kind == "source":
            consume(split(), log)
            res.probe("common-type-call")
        else:
            for v in vals:
                split.fill(v)
            if kind == "fc":
                consume(split.compute(), log)
                res.probe("common-type-fill-compute")
            else:
                consume(split.request(), log)
                res.probe("common-type-fill-request")
    except Exception as e:  # noqa: BLE001
        from ..kernel import exception_origin, exception_site
        if exception_origin(e) != "lena" and not isinstance(e, AttributeError):
            raise
        res.viol("C03:Split.common-type:%s:unexpected-exception:%s" % (kind, type(e).__name__),
                 repr(e)[:300])
        return
    if len(sc.branches) >= 2 and sc.n:
        res.nontrivial = True
    if kind != "source" and log.events != mlog.events:
        # fill(v) goes to every branch; in which order is not stated: the outputs must agree and
        # every branch by itself must have seen the same history
        def outs_of(events):
            return [e for e in events if e[0] in ("out", "end", "built")]

        def of_branch(events, b):
            pre = b.name + "."
            return [e for e in events if len(e) > 1 and isinstance(e[1], str) and e[1].startswith(pre)]
        if outs_of(log.events) == outs_of(mlog.events) and all(
                of_branch(log.events, b) == of_branch(mlog.events, b) for b in sc.branches):
            res.probe("common-type-other-fill-order-among-branches")
            return
    compare(sc, res, log.events, mlog.events, "Split.common-type")


def zip_mode(sc, res):
    log = res.log
    kind = sc.branches[0].kind
    vals = [Tok(i) for i in range(sc.n)]

    def model(drain):
        # the statement fixes the tuples of i-th results; whether the branches that still
        # have results when the shortest one ends are run to their end (drain) or abandoned
        # is not part of it: both schedules are accepted
        mlog = Log()
        mbranches = [MBranch(b, mlog) for b in sc.branches]
        mlog.ev("built")
        for v in vals:
            for br in mbranches:
                br.fill(v)

        def mgen():
            gens = [(br.compute() if kind == "fc" else br.request()) for br in mbranches]
            while True:
                tup = []
                for g in gens:
                    try:
                        tup.append(next(g))
                    except StopIteration:
                        if drain:
                            for g2 in gens:
                                for _ in g2:
                                    pass
                        return
                yield tuple(tup)
        consume(mgen(), mlog)
        return mlog
    mlog = model(True)
    mlog_abandon = model(False)
    fields = None
    outs = []
    try:
        if getattr(sc, "zip_fields", False):
            # results are namedtuples with the given field names; another Zip with the same
            # (default) name and other fields exists in the same process
            nb = len(sc.branches)
            other = [lena.math.Sum() for _ in range(nb)] if kind == "fc" else \
                [lena.core.FillRequest(lena.math.Sum(), bufsize=1, reset=True, buffer_input=True) for _ in range(nb)]
            lena.flow.Zip(other, fields=["other%d" % i for i in range(nb)])
            fields = ["f%d" % i for i in range(nb)]
            z = lena.flow.Zip([real_branch(b, log) for b in sc.branches], fields=fields)
            res.probe("zip-with-fields")
        else:
            z = lena.flow.Zip([real_branch(b, log) for b in sc.branches])
        log.ev("built")
        for v in vals:
            z.fill(v)
        gen = z.compute() if kind == "fc" else z.request()

        def watched():
            for x in gen:
                outs.append(x)
                yield x
        consume(watched(), log)
    except Exception as e:  # noqa: BLE001
        from ..kernel import exception_origin
        if exception_origin(e) != "lena":
            raise
        res.viol("C03:Zip:%s:unexpected-exception:%s" % (kind, type(e).__name__), repr(e)[:300])
        return
    res.probe("zip")
    if len(sc.branches) >= 2 and sc.n:
        res.nontrivial = True
    if fields is not None:
        for x in outs:
            data = x[0] if (isinstance(x, tuple) and len(x) == 2 and isinstance(x[1], dict)
                            and not hasattr(x, "_fields")) else x
            if list(getattr(data, "_fields", ())) != fields:
                res.viol("C03:Zip:fields:wrong-field-names",
                         "Zip(..., fields=%r) yielded a value with fields %r"
                         % (fields, getattr(data, "_fields", None)))
                return
    if log.events in (mlog.events, mlog_abandon.events):
        return
    # The statement fixes the tuples of the branches' i-th results, not the order in which Zip
    # turns to its branches: the outputs must agree, and every branch by itself must have seen
    # what it sees under one of the two accepted schedules.

    def outs_of(events):
        return [e for e in events if e[0] in ("out", "end", "built")]

    def of_branch(events, b):
        pre = b.name + "."
        return [e for e in events if len(e) > 1 and isinstance(e[1], str) and e[1].startswith(pre)]
    if outs_of(log.events) == outs_of(mlog.events) and all(
            of_branch(log.events, b) in (of_branch(mlog.events, b), of_branch(mlog_abandon.events, b))
            for b in sc.branches):
        res.probe("zip-other-order-among-branches")
        return
    compare(sc, res, log.events, mlog.events, "Zip")
