"""C04 - context non-interference between Split/Zip branches and across accumulators.

Two executors share one machine:

(a) branch isolation: 1-4 branches whose elements mutate data and context in
    place, driven through Split.run, Split.fill..compute(), Split.fill..request()
    (request() at drawn points), Zip.fill..compute()/request(); each branch's
    outputs must equal what a fresh copy of that branch yields alone (same
    driver, same schedule) on a private deep copy of the flow, and no mutable
    object handed to one branch may be reachable from a value handed to another;

(b) accumulator aliasing under scribble faults: histories of fill / compute /
    request over one framework accumulator (bare or wrapped) in which anything
    yielded earlier is overwritten in place at drawn points; object-identity
    and behavioural invariants after every operation, and a twin that runs the
    same history without faults.

DESIGN.md section 3, C04.
"""
import copy
import decimal
from fractions import Fraction

import lena.context
import lena.core
import lena.flow
import lena.math
import lena.output
import lena.structures
import lena.variables

from ..kernel import RunResult, summarize, exception_origin, exception_site

PROPERTY = "C04"
LEVEL = "exploration"
ABSTRACT_WIDTH = 3
N_RUNS = {"quick": 200000, "thorough": 8000000}
RULE = ("each run is either (a) a branch-isolation scenario: 1-4 branches of 1-3 in-place mutators "
        "(Variable, UpdateContext, MakeFilename, Count, user callables that append to the data "
        "list and write into the context, optional Slice that stops a branch mid-block) ending in "
        "a tagger or in an accumulator (StoreFilled, Sum, Count, Histogram), a driver (Split.run, "
        "Split fill/compute, Split fill/request with request() at drawn points, Zip fill/compute, "
        "Zip fill/request), bufsize in {1,2,3,1000,None} and a flow of 0-7 values without "
        "aliasing; every branch is also run alone in a one-branch Split/Zip under the same driver "
        "and schedule on a private deep copy of the flow; or (b) an accumulator-aliasing history: "
        "one accumulator (Sum, DSum, Mean plain or over Sum, VarianceMeanCount, Vectorize, Count, "
        "Histogram, SplitIntoBins) bare or inside FillComputeSeq / Split / Zip / FillRequest and "
        "0-12 operations fill(v) / compute-or-request / scribble(result i) / scribble(filled j), "
        "values bare, with an empty or with a nested context; non-trivial = two or more branches "
        "with a non-empty flow, or at least one scribble after a compute; distinct = distinct "
        "abstracted event-kind sequences."
        " Since the seeded rounds also: branches that are nested Splits / Zips of two copies of"
        " their chain, contexts of class lena.context.Context, one Variable and one UpdateContext"
        " instance shared by all branches, flows of bare user objects (hashable, mutable) and"
        " 1-tuples of them; accumulators VectorizeStore, Graph and SplitIntoBins with two-result"
        " cells; results of one call must share nothing either."
        " Also: Source branches, numbers of a float subclass with mutable attributes, a value"
        " that cannot be deep-copied (refusing it loudly is accepted), contexts holding a set and"
        " a user object, FillRequest with buffer_output and requests abandoned after one result.")
REAL = ["lena.core.Split (run, fill, compute, request)", "lena.flow.Zip", "lena.core.FillComputeSeq",
        "lena.core.FillRequestSeq", "lena.core.FillRequest", "lena.core.Sequence",
        "lena.variables.Variable", "lena.context.UpdateContext", "lena.output.MakeFilename",
        "lena.flow.Count", "lena.flow.Slice", "lena.flow.StoreFilled", "lena.math.Sum/DSum/Mean/"
        "VarianceMeanCount/Vectorize", "lena.structures.Histogram", "lena.structures.SplitIntoBins",
        "copy.deepcopy"]
STUB = ["user mutators (append to the data list, write into the context)", "recorder at the head of "
        "every branch (keeps the objects the branch was handed)", "tagger at the end of every "
        "branch", "replay elements used to zip the stand-alone results", "scribble fault "
        "(overwrites every dict and list reachable from a context)", "drivers"]
ASSUMPTIONS = [
    "copy_buf=True (the default) throughout; flows have no pre-existing aliasing",
    "alone = the same branch, freshly built, in a one-branch Split (or Zip) under the same driver, "
    "bufsize and request schedule on a private deep copy of the flow",
    "Slice (a stopping branch) is generated only for Split.run: in a fill-driven Split "
    "LenaStopFill of one branch ends the filling of all of them by design",
    "only the context part of a yielded result is scribbled on and judged (the statement speaks "
    "of contexts); the data part, e.g. the live histogram, is shared by design",
    "scribbling on a filled value is generated but only recorded (beyond_quantifier): an "
    "accumulator may reference the last context until it computes",
    "StoreFilled and GroupBy yield the filled values themselves and are not judged in (b)",
    "Count.compute writing its key into the last filled value's own context is an in-place "
    "effect of the accumulator, not sharing of a yielded context",
]
FAULT_KINDS = ["scribble-on-yielded-context", "scribble-on-filled-value", "branch-stops-mid-block",
               "request-at-drawn-point"]
EXPECTED_PROBES = ["bare-accumulator-branch", "bare-accumulator-followed-by-a-fill-compute-branch-not-last", "split-run", "split-fill-compute", "split-fill-request", "zip-compute", "zip-request",
                   "three-or-more-branches", "multi-block", "stopping-branch-not-last",
                   "acc-empty-context-yielded", "acc-wrapper", "scribble-then-compute",
                   "compute-twice-no-fill", "makefilename-in-two-branches", "nested-split-or-zip-branch",
                   "several-results-per-compute", "bare-event-objects-as-values",
                   "one-updatecontext-instance-in-two-branches", "uncopyable-value-in-the-flow",
                   "uncopyable-block-refused"]

_TIER = ["quick"]


def set_tier(t):
    _TIER[0] = t


class Spec(object):
    pass


# --------------------------------------------------------------------------
# object graph helpers

class Ev(object):
    """a user's event object: hashable (by identity) and mutable"""

    def __init__(self, i):
        self.i = i
        self.items = [i]


class Weighted(float):
    """a number of a user's subclass of float that carries mutable attributes"""

    def __new__(cls, i):
        self = float.__new__(cls, i)
        self.i = i
        self.items = [i]
        return self

    def __reduce__(self):
        return (_rebuild_weighted, (self.i, self.items))


def _rebuild_weighted(i, items):
    w = Weighted(i)
    w.items = items
    return w


class Box(object):
    """a user's object kept in a context (a mutable that is neither a dict nor a list)"""

    def __init__(self, n):
        self.notes = [n]

    def __eq__(self, other):
        return isinstance(other, Box) and self.notes == other.notes

    __hash__ = object.__hash__


def containers(x, acc=None, depth=0):
    """every mutable object reachable from x: dicts, lists, sets, event objects and boxes
    (looked for inside dicts, lists, tuples and those objects)"""
    if acc is None:
        acc = {}
    if depth > 12:
        return acc
    if isinstance(x, (Ev, Weighted)):
        if id(x) in acc:
            return acc
        acc[id(x)] = x
        containers(x.items, acc, depth + 1)
        return acc
    if isinstance(x, Box):
        if id(x) in acc:
            return acc
        acc[id(x)] = x
        containers(x.notes, acc, depth + 1)
        return acc
    if isinstance(x, set):
        acc[id(x)] = x
        return acc
    if isinstance(x, dict):
        if id(x) in acc:
            return acc
        acc[id(x)] = x
        for v in x.values():
            containers(v, acc, depth + 1)
    elif isinstance(x, list):
        if id(x) in acc:
            return acc
        acc[id(x)] = x
        for v in x:
            containers(v, acc, depth + 1)
    elif isinstance(x, tuple):
        for v in x:
            containers(v, acc, depth + 1)
    return acc


def scribble(x, mark):
    """overwrite every dict and list reachable from x"""
    conts = list(containers(x).values())
    for c in conts:
        if isinstance(c, dict):
            c.clear()
            c["POISON"] = mark
        elif isinstance(c, set):
            c.clear()
            c.add("POISON-%s" % (mark,))
        elif isinstance(c, list):
            del c[:]
            c.append("POISON-%s" % (mark,))
    return len(conts)


def canon(x, depth=0):
    if depth > 10:
        return "..."
    if isinstance(x, bool) or x is None or isinstance(x, (int, str)):
        return x
    if isinstance(x, float):
        return ("nan",) if x != x else x
    if isinstance(x, decimal.Decimal):
        return ("num", Fraction(x)) if x.is_finite() else ("dec", str(x))
    if isinstance(x, lena.structures.histogram):
        return ("histogram", canon(x.edges, depth + 1), canon(x.bins, depth + 1))
    if isinstance(x, (Ev, Weighted)):
        return ("ev", x.i, canon(x.items, depth + 1))
    if isinstance(x, Box):
        return ("box", canon(x.notes, depth + 1))
    if isinstance(x, (set, frozenset)):
        return ("set",) + tuple(sorted(repr(canon(y, depth + 1)) for y in x))
    if isinstance(x, tuple):
        return ("t",) + tuple(canon(y, depth + 1) for y in x)
    if isinstance(x, list):
        return ("l",) + tuple(canon(y, depth + 1) for y in x)
    if isinstance(x, dict):
        return ("d",) + tuple(sorted(((repr(k), canon(v, depth + 1)) for k, v in x.items())))
    return ("obj", type(x).__name__)


def result_context(r):
    if isinstance(r, tuple) and len(r) == 2 and isinstance(r[1], dict) and not hasattr(r, "_fields"):
        return r[1]
    return None


# --------------------------------------------------------------------------
# (a) branch isolation

class Recorder(object):
    """first element of a branch: keeps every object the branch was handed"""

    def __init__(self, store):
        self.store = store

    def __call__(self, value):
        self.store.append(value)
        return value


class UData(object):
    """user mutator: appends to the data list in place"""

    def __init__(self, code):
        self.code = code

    def __call__(self, value):
        value[0].append(self.code)
        return value


class UCtx(object):
    """user mutator: writes into the context in place"""

    def __init__(self, b, code):
        self.b = b
        self.code = code

    def __call__(self, value):
        ctx = value[1]
        ctx["tags"].append(self.code)
        ctx.setdefault("seen", {})["b%d" % self.b] = self.code
        return value


class UObj(object):
    """user mutator: changes the event object in place (bare objects or tuples of them as values)"""

    def __init__(self, code):
        self.code = code

    def __call__(self, value):
        ev = value[0] if isinstance(value, tuple) else value
        ev.items.append(self.code)
        return value


class UPicked(object):
    """user mutator: appends to the list UpdateContext put under context.picked"""

    def __init__(self, code):
        self.code = code

    def __call__(self, value):
        p = value[1].get("picked")
        if isinstance(p, list):
            p.append(self.code)
        return value


class BareCount(lena.flow.Count):
    """a bare accumulator given to Split as a branch (no sequence around it): a Count that
    remembers what it was handed and tags its results with its branch"""

    def __init__(self, b, store):
        lena.flow.Count.__init__(self, "n%d" % b)
        self._b = b
        self._store = store

    def fill(self, value):
        self._store.append(value)
        lena.flow.Count.fill(self, value)

    def compute(self):
        for r in lena.flow.Count.compute(self):
            yield ("B", self._b, r)


class BareStore(lena.flow.StoreFilled):
    """the same with StoreFilled"""

    def __init__(self, b, store):
        lena.flow.StoreFilled.__init__(self)
        self._b = b
        self._store = store

    def fill(self, value):
        self._store.append(value)
        lena.flow.StoreFilled.fill(self, value)

    def compute(self):
        for r in lena.flow.StoreFilled.compute(self):
            yield ("B", self._b, r)


class Tagger(object):
    def __init__(self, b):
        self.b = b

    def __call__(self, value):
        return ("B", self.b, value)


class ToNumber(object):
    """data list -> number, context untouched (for numeric accumulators)"""

    def __call__(self, value):
        return (sum(value[0]), value[1])


class Replay(object):
    """fill/compute (and request) element that yields recorded results"""

    def __init__(self, results):
        self.results = list(results)
        self.chunks = None
        self.k = 0

    def fill(self, value):
        pass

    def compute(self):
        for r in self.results:
            yield r

    def request(self):
        k = self.k
        self.k += 1
        for r in self.chunks[k]:
            yield r


def branch_of(r):
    """branch tag of a result: ('B', b, value), or a tuple of such (a nested Zip)"""
    if isinstance(r, tuple) and len(r) == 3 and r[0] == "B" and isinstance(r[1], int):
        return r[1]
    if isinstance(r, tuple) and r and all(isinstance(x, tuple) and len(x) == 3 and x[0] == "B" for x in r):
        return r[0][1]
    return None


class ReplayFR(object):
    """fill/request element whose k-th request() yields the k-th recorded chunk"""

    def __init__(self, chunks):
        self.chunks = chunks
        self.k = 0

    def fill(self, value):
        pass

    def request(self):
        k = self.k
        self.k += 1
        for r in (self.chunks[k] if k < len(self.chunks) else []):
            yield r


class UVarRange(object):
    """user mutator: appends to the list the shared Variable put into context.variable.range"""

    def __init__(self, code):
        self.code = code

    def __call__(self, value):
        rng = value[1].get("variable", {}).get("range")
        if isinstance(rng, list):
            rng.append(self.code)
        return value


def make_shared_variable():
    """one Variable instance used by several branches; it got a mutable attribute after its
    construction (every value must still get its own copy of it)"""
    v = lena.variables.Variable("shared", lambda d: d + [7])
    v.range = [0, 1]
    return v


def make_shared_update():
    """one UpdateContext instance used by several branches: it copies a value of the context to
    another place; the key is missing and its (mutable) default is used - every value must get
    its own copy of it"""
    return lena.context.UpdateContext("picked", "{{absent.key}}", value=True, default=[])


MUTATORS = ["uctx", "udata", "var", "upd", "mkf", "count", "sharedvar", "sharedupd"]


def gen_split(tape, sc):
    sc.driver = tape.weighted([(4, "run"), (3, "fill-compute"), (2, "fill-request"),
                               (2, "zip-compute"), (1, "zip-request")], "driver")
    sc.nb = 1 + tape.draw(4, "branches")
    sc.bufsize = tape.choice([1000, 2, 1, 3, None], "bufsize")
    sc.n = tape.draw(8, "flowlen")
    # what the values are: (data list, context) pairs, or bare event objects of a user's class
    # (hashable, mutable), or 1-tuples of them
    sc.shape = tape.weighted([(6, "pair"), (1, "object"), (1, "object-tuple"), (1, "number-subclass"),
                              (1, "uncopyable")], "value-shape")
    sc.branches = []
    for b in range(sc.nb):
        br = Spec()
        if sc.driver == "run":
            br.kind = tape.weighted([(3, "seq"), (3, "fc"), (3, "fr"), (1, "source")], "branch-kind")
        elif sc.driver in ("fill-compute", "zip-compute"):
            br.kind = "fc"
        else:
            br.kind = "fr"
        nm = 1 + tape.draw(3, "nmut")
        br.muts = []
        for j in range(nm):
            m = tape.choice(MUTATORS, "mutator")
            if m == "count" and br.kind == "seq":
                m = "uctx"
            if sc.shape not in ("pair", "uncopyable"):
                m = "uobj"
            br.muts.append(m)
        br.acc = tape.choice(["store", "sum", "count", "hist"], "acc") if br.kind != "seq" else None
        if sc.shape not in ("pair", "uncopyable") and br.acc is not None:
            br.acc = "store"
        br.slice = None
        if sc.driver == "run" and br.kind != "seq" and tape.chance(1, 3, "slice"):
            br.slice = tape.draw(sc.n + 1, "slice-stop")
            br.slice_pos = tape.draw(nm + 1, "slice-pos")
        if br.kind == "source":
            br.slice = None
            br.acc = None
        br.fr_bufsize = 1 + tape.draw(3, "fr-bufsize")
        br.fr_reset = bool(tape.draw(2, "fr-reset"))
        # the branch is itself a Split (or Zip) of two copies of the chain (with their own mutator codes)
        br.nested = None
        if br.kind in ("fc", "fr") and br.slice is None and tape.chance(1, 5, "nested-branch"):
            br.nested = tape.choice(["Split", "Zip"], "nested-kind")
        # the branch is a bare accumulator element, nothing in front of it and nothing behind
        br.bare = None
        if br.kind == "fc" and br.nested is None and br.slice is None and sc.shape == "pair" \
                and tape.chance(1, 4, "bare-accumulator-branch"):
            br.bare = tape.choice(["count", "store"], "bare-acc")
        sc.branches.append(br)
    # the contexts are plain dictionaries or lena.context.Context objects (a dict subclass)
    sc.ctx_class = lena.context.Context if tape.chance(1, 4, "context-class") else dict
    sc.reqs = []
    if sc.driver in ("fill-request", "zip-request"):
        for p in range(sc.n + 1):
            if tape.draw(3, "request-here") == 2:
                sc.reqs.append(p)
    return sc


def make_flow(n, ctx_class=dict, shape="pair"):
    if shape == "object":
        return [Ev(i) for i in range(n)]
    if shape == "object-tuple":
        return [(Ev(i),) for i in range(n)]
    if shape == "number-subclass":
        return [Weighted(i) for i in range(n)]
    if shape == "uncopyable":
        # the context of one value holds something that cannot be deep-copied (an open handle, a
        # generator): a Split that must copy it may refuse the block, it may not share it
        flow = [([i], ctx_class({"src": {"i": i}, "tags": []})) for i in range(n)]
        if n >= 2:
            flow[1][1]["handle"] = (x for x in ())
        return flow
    return [([i], ctx_class({"src": {"i": i}, "tags": []})) for i in range(n)]


def build_branch(sc, b, store, sub=0):
    """list of elements of branch b (fresh objects); sub: copy number inside a nested branch"""
    br = sc.branches[b]
    if br.kind == "source":
        # a branch that does not read the flow
        return [lambda: iter([([900 + k], {"src": {"i": 900 + k}, "tags": []}) for k in range(2)]), Tagger(b)]
    if getattr(br, "bare", None):
        return [BareCount(b, store) if br.bare == "count" else BareStore(b, store)]
    els = [Recorder(store)]
    muts = []
    for j, m in enumerate(br.muts):
        code = 100 * (b + 1) + j + 50 * sub
        if m == "uctx":
            muts.append(UCtx(b, code))
        elif m == "udata":
            muts.append(UData(code))
        elif m == "var":
            muts.append(lena.variables.Variable("v%d_%d" % (b, j), lambda d, code=code: d + [code]))
        elif m == "upd":
            muts.append(lena.context.UpdateContext("br.b%d_%d" % (b, sub), code))
        elif m == "mkf":
            muts.append(lena.output.MakeFilename("f{{src.i}}_b%d_%d_%d" % (b, j, sub)))
        elif m == "sharedvar":
            muts.append(sc.shared_var)
            muts.append(UVarRange(code))
        elif m == "sharedupd":
            muts.append(sc.shared_upd)
            muts.append(UPicked(code))
        elif m == "uobj":
            muts.append(UObj(code))
        else:
            muts.append(lena.core.FillInto(lena.flow.Count("c%d" % b)))
    if br.slice is not None:
        muts.insert(br.slice_pos, lena.flow.Slice(br.slice))
    els += muts
    if br.kind == "seq":
        els.append(Tagger(b))
        return els
    if br.acc == "store":
        acc = lena.flow.StoreFilled()
    elif br.acc == "sum":
        els.append(ToNumber())
        acc = lena.math.Sum()
    elif br.acc == "count":
        acc = lena.flow.Count("n%d" % b)
    else:
        els.append(ToNumber())
        acc = lena.structures.Histogram([0, 3, 10, 1000])
    if br.kind == "fr":
        acc = lena.core.FillRequest(acc, bufsize=br.fr_bufsize, reset=br.fr_reset, buffer_input=True)
    els.append(acc)
    els.append(Tagger(b))
    return els


def as_seq(sc, b, els, store=None):
    br = sc.branches[b]
    k = br.kind
    if getattr(br, "bare", None):
        return els[0]
    if getattr(br, "nested", None) and store is not None:
        one = as_seq(sc, b, els)
        two = as_seq(sc, b, build_branch(sc, b, store, sub=1))
        if br.nested == "Split":
            return lena.core.Split([one, two])
        return lena.flow.Zip([one, two])
    if k == "source":
        return lena.core.Source(*els)
    if k == "seq":
        return lena.core.Sequence(*els)
    if k == "fc":
        return lena.core.FillComputeSeq(*els)
    return lena.core.FillRequestSeq(*els, bufsize=1, reset=False, buffer_input=True)


def drive(sc, which, flow, stores, res=None):
    """Run the branches *which* (indices) under the scenario's driver.
    Returns the list of results, or for request drivers the list of chunks."""
    sc.shared_var = make_shared_variable()      # the same object in every branch of this run
    sc.shared_upd = make_shared_update()
    seqs = [as_seq(sc, b, build_branch(sc, b, stores[b]), stores[b]) for b in which]
    d = sc.driver
    if d == "run":
        s = lena.core.Split(seqs, bufsize=sc.bufsize)
        return list(s.run(iter(flow)))
    if d in ("fill-compute", "fill-request"):
        s = lena.core.Split(seqs, bufsize=sc.bufsize)
    else:
        s = lena.flow.Zip(seqs)
    if d in ("fill-compute", "zip-compute"):
        for v in flow:
            s.fill(v)
        return list(s.compute())
    chunks = []
    reqs = list(sc.reqs)
    pos = 0
    for v in flow:
        while reqs and reqs[0] == pos:
            reqs.pop(0)
            chunks.append(list(s.request()))
            if res is not None:
                res.fault("request-at-drawn-point")
        s.fill(v)
        pos += 1
    while reqs:
        reqs.pop(0)
        chunks.append(list(s.request()))
    chunks.append(list(s.request()))
    return chunks


def run_split(tape, res, sc):
    log = res.log
    gen_split(tape, sc)
    d = sc.driver
    res.say("branch isolation: driver %s, bufsize %s, %d values, %d branches" % (d, sc.bufsize, sc.n, sc.nb))
    for b, br in enumerate(sc.branches):
        if br.nested:
            res.probe("nested-split-or-zip-branch")
        if getattr(br, "bare", None):
            res.probe("bare-accumulator-branch")
            if b + 2 < sc.nb and (getattr(sc.branches[b + 1], "bare", None) or sc.branches[b + 1].kind == "fc"):
                res.probe("bare-accumulator-followed-by-a-fill-compute-branch-not-last")
        res.say("  branch %d: %s%s %s%s%s" % (b, br.kind, (" nested in a %s of two copies" % br.nested) if br.nested else "",
                                             "+".join(br.muts),
                                           (" -> %s" % br.acc) if br.acc else "",
                                           (" Slice(%d)@%d" % (br.slice, br.slice_pos)) if br.slice is not None else ""))
    if sc.reqs:
        res.say("  request() after fills %r and at the end" % (sc.reqs,))
    log.ev("cfg", "split", d, str(sc.bufsize), sc.n, sc.nb)
    res.probe({"run": "split-run", "fill-compute": "split-fill-compute", "fill-request": "split-fill-request",
               "zip-compute": "zip-compute", "zip-request": "zip-request"}[d])
    if sc.nb >= 3:
        res.probe("three-or-more-branches")
    if sc.shape == "uncopyable":
        res.probe("uncopyable-value-in-the-flow")
        res.say("  the context of value 1 holds a generator (it cannot be deep-copied)")
    elif sc.shape != "pair":
        res.probe("bare-event-objects-as-values")
        res.say("  the values are %s" % {"object": "bare event objects", "object-tuple": "1-tuples of event objects",
                                         "number-subclass": "numbers of a float subclass with mutable attributes"}[sc.shape])
    if sum(1 for br in sc.branches if "sharedupd" in br.muts) >= 2:
        res.probe("one-updatecontext-instance-in-two-branches")
    if sc.bufsize is not None and sc.bufsize < sc.n and d == "run":
        res.probe("multi-block")
    if sum(1 for br in sc.branches if "mkf" in br.muts) >= 2:
        res.probe("makefilename-in-two-branches")
    for b, br in enumerate(sc.branches):
        if br.slice is not None and br.slice < sc.n:
            res.fault("branch-stops-mid-block")
            if b < sc.nb - 1:
                res.probe("stopping-branch-not-last")
    where = {"run": "Split.run", "fill-compute": "Split.fill", "fill-request": "Split.fill-request",
             "zip-compute": "Zip.fill", "zip-request": "Zip.fill-request"}[d]
    if sc.nb >= 2 and sc.n >= 1:
        res.nontrivial = True

    def guarded(fn, what):
        try:
            return fn(), None
        except Exception as e:  # noqa: BLE001
            if exception_origin(e) != "lena":
                raise
            return None, e

    # together
    stores = [[] for _ in range(sc.nb)]
    flow = make_flow(sc.n, sc.ctx_class, sc.shape)
    together, err = guarded(lambda: drive(sc, list(range(sc.nb)), flow, stores, res), "together")
    log.ev("op", "together", d)
    # alone
    alone = []
    for b in range(sc.nb):
        st = [[] for _ in range(sc.nb)]
        out, e2 = guarded(lambda b=b, st=st: drive(sc, [b], make_flow(sc.n, sc.ctx_class, sc.shape), st), "alone")
        log.ev("op", "alone", b)
        alone.append((out, e2))
    if err is not None and sc.shape == "uncopyable" and isinstance(err, TypeError):
        # the block could not be copied and was refused loudly: nothing was shared
        res.probe("uncopyable-block-refused")
        return
    if err is not None:
        # a branch that fails alone in the same way is not an interference
        same = [e2 for _, e2 in alone if e2 is not None and type(e2) is type(err)]
        if same:
            res.probe("branch-raises-alone-too")
            return
        res.viol("C04:%s:raises-only-with-other-branches:%s@%s" % (where, type(err).__name__,
                                                                   exception_site(err)), repr(err)[:300])
        return
    if any(e2 is not None for _, e2 in alone):
        # a branch raises alone but not together: the drivers disagree (e.g. a stop) - not judged
        res.probe("branch-raises-only-alone")
        return

    # 1. identity: nothing handed to one branch is reachable from what another was handed
    if d != "run" or True:
        seen = {}
        for b in range(sc.nb):
            mine = {}
            for v in stores[b]:
                containers(v, mine)
            for i in mine:
                if i in seen and seen[i] != b:
                    res.viol("C04:%s:branches-share-mutable-objects" % where,
                             "branches %d and %d were handed values that share a %s object"
                             % (seen[i], b, type(mine[i]).__name__))
                    return
            for i in mine:
                seen[i] = b

    # 2. per-branch outputs equal the stand-alone outputs
    if d in ("run", "fill-compute", "fill-request"):
        if d == "fill-request":
            tog_flat = [r for ch in together for r in ch]
        else:
            tog_flat = together
        for b in range(sc.nb):
            if d == "fill-request":
                al = [r for ch in alone[b][0] for r in ch]
            else:
                al = alone[b][0]
            mine = [r for r in tog_flat if branch_of(r) == b]
            cm, ca = canon(mine), canon(al)
            log.ev("result", b, summarize(cm) == summarize(ca))
            if cm != ca:
                res.viol("C04:%s:branch-differs-from-running-alone" % where,
                         "branch %d (%s) inside the %d-branch Split yielded %r; alone on a private "
                         "copy of the flow it yields %r" % (b, "+".join(sc.branches[b].muts), sc.nb,
                                                            summarize(cm), summarize(ca)))
                return
        n_tagged = sum(1 for r in tog_flat if branch_of(r) is not None)
        if n_tagged != len(tog_flat):
            res.viol("C04:%s:foreign-results" % where, "results without a branch tag: %r" % (summarize(tog_flat),))
        return
    # Zip: zip the stand-alone results with the real Zip over replay elements
    if d == "zip-compute":
        # a one-branch Zip yields 1-tuples
        exp = list(lena.flow.Zip([Replay([r[0] for r in alone[b][0]]) for b in range(sc.nb)]).compute())
        if canon(together) != canon(exp):
            res.viol("C04:%s:branch-differs-from-running-alone" % where,
                     "Zip of %d branches yielded %r; zipping the stand-alone results gives %r"
                     % (sc.nb, summarize(canon(together)), summarize(canon(exp))))
        return
    reps = [ReplayFR([[x[0] for x in ch] for ch in alone[b][0]]) for b in range(sc.nb)]
    z = lena.flow.Zip(reps)
    # the replay elements yield the stand-alone results request by request
    exp_chunks = [list(z.request()) for _ in range(len(together))]
    if canon(together) != canon(exp_chunks):
        res.viol("C04:%s:branch-differs-from-running-alone" % where,
                 "Zip of %d branches yielded %r; zipping the stand-alone results gives %r"
                 % (sc.nb, summarize(canon(together)), summarize(canon(exp_chunks))))


# --------------------------------------------------------------------------
# (b) accumulators under scribble faults

ACCS = ["Sum", "DSum", "Mean", "MeanSum", "VarianceMeanCount", "Vectorize", "Count", "Histogram",
        "SplitIntoBins", "VectorizeStore", "Graph", "SplitIntoBinsMulti"]
WRAPPERS = ["bare", "bare", "FillComputeSeq", "Split", "Zip", "FillRequest", "FillRequestOut"]


def make_acc(name):
    if name == "Sum":
        return lena.math.Sum()
    if name == "DSum":
        return lena.math.DSum()
    if name == "Mean":
        return lena.math.Mean(pass_on_empty=True)
    if name == "MeanSum":
        return lena.math.Mean(lena.math.Sum(), pass_on_empty=True)
    if name == "VarianceMeanCount":
        return lena.math.VarianceMeanCount(corrected=False, pass_on_empty=True)
    if name == "Vectorize":
        return lena.math.Vectorize(lena.math.Sum(), dim=2)
    if name == "VectorizeStore":
        # the component accumulators yield one result per filled value: several results per compute
        return lena.math.Vectorize(lena.flow.StoreFilled(yield_as_a_group=False), dim=2)
    if name == "Graph":
        # deprecated element; yields (itself, a context built from the last filled one)
        return lena.structures.Graph()
    if name == "Count":
        return lena.flow.Count("cnt")
    if name == "Histogram":
        return lena.structures.Histogram([0, 2, 4, 8])
    if name == "SplitIntoBins":
        return lena.structures.SplitIntoBins(lena.math.Sum(), lena.variables.Variable("x", lambda x: x),
                                             [0, 2, 4, 8])
    if name == "SplitIntoBinsMulti":
        # the sequence of every cell yields two results per compute: two histograms per compute
        cell = lena.core.Split([lena.math.Sum(), lena.flow.Count("in_cell")])
        return lena.structures.SplitIntoBins(cell, lena.variables.Variable("x", lambda x: x),
                                             [0, 2, 4, 8])
    raise ValueError(name)


def make_wrapped(sc):
    acc = make_acc(sc.acc)
    w = sc.wrapper
    if w == "bare":
        return acc, "compute"
    if w == "FillComputeSeq":
        return lena.core.FillComputeSeq(lena.variables.Variable("id", lambda x: x), acc), "compute"
    if w == "Split":
        return lena.core.Split([acc, make_acc(sc.acc2)], bufsize=sc.bufsize), "compute"
    if w == "Zip":
        return lena.flow.Zip([acc, make_acc(sc.acc2)]), "compute"
    if w == "FillRequestOut":
        # results of complete blocks wait in the adapter until they are requested
        return lena.core.FillRequest(acc, bufsize=1, reset=False, buffer_output=True), "request"
    return lena.core.FillRequest(acc, bufsize=1, reset=False, buffer_input=True), "request"


def gen_acc(tape, sc):
    sc.acc = tape.choice(ACCS, "acc")
    sc.wrapper = tape.choice(WRAPPERS, "wrapper")
    sc.acc2 = tape.choice(["Sum", "Count", "Histogram", "Mean"], "acc2")
    if sc.acc in ("Vectorize", "VectorizeStore", "Graph"):
        sc.acc2 = sc.acc
    sc.bufsize = tape.choice([1000, 1, None], "bufsize")
    sc.ctx_context_class = tape.chance(1, 4, "context-class")
    # (not in lena.context.Context objects, whose representation is JSON)
    sc.exotic_ctx = (not sc.ctx_context_class) and tape.chance(1, 3, "set-and-object-in-context")
    sc.ops = []
    nfill = 0
    ncomp = 0
    while len(sc.ops) < 12:
        op = tape.weighted([(1, "end"), (5, "fill"), (4, "compute"), (3, "scribble-result"),
                            (1, "scribble-filled"), (1, "partial")], "op")
        if op == "end":
            if sc.ops or tape.draw(4, "really-empty") == 0:
                break
            continue
        if op == "fill":
            ck = tape.weighted([(4, "ctx"), (2, "empty"), (1, "bare")], "ctxkind")
            x = tape.choice([1, 3, 0.5, 5, 2], "x")
            sc.ops.append(("fill", x, ck))
            nfill += 1
        elif op in ("compute", "partial"):
            sc.ops.append((op,))
            ncomp += 1
        elif op == "scribble-result":
            if ncomp:
                sc.ops.append(("scribble-result", tape.draw(ncomp, "which-compute"), tape.draw(3, "which-result")))
        else:
            if nfill:
                sc.ops.append(("scribble-filled", tape.draw(nfill, "which-filled")))
    return sc


def make_value(sc, x, ck, serial):
    data = (x, x + 1) if sc.acc in ("Vectorize", "VectorizeStore") else x
    if sc.acc == "Graph":
        data = ((x,), (serial,))
    cls = lena.context.Context if getattr(sc, "ctx_context_class", False) else dict
    if ck == "bare":
        return data
    if ck == "empty":
        return (data, cls({}))
    ctx = {"a": {"n": serial}, "l": [serial], "k": "v%d" % serial}
    if getattr(sc, "exotic_ctx", False):
        # mutable objects that are neither dictionaries nor lists
        ctx["s"] = set([serial])
        ctx["a"]["box"] = Box(serial)
    return (data, cls(ctx))


def run_acc(tape, res, sc):
    log = res.log
    gen_acc(tape, sc)
    name = sc.acc if sc.wrapper == "bare" else "%s/%s" % (sc.acc, sc.wrapper)
    res.say("accumulator aliasing: %s%s; %d operations" % (
        name, (" with %s, bufsize %s" % (sc.acc2, sc.bufsize)) if sc.wrapper in ("Split", "Zip") else "",
        len(sc.ops)))
    log.ev("cfg", "acc", name)
    if sc.wrapper != "bare":
        res.probe("acc-wrapper")
    el, method = make_wrapped(sc)
    twin, _ = make_wrapped(sc)
    mname = "%s.%s" % (name, method)
    filled = []        # value objects handed to el
    results = []       # per compute: list of result objects (kept alive)
    scribbled = False
    last_was_compute = False
    serial = 0

    def call(obj, partial=False):
        try:
            if partial:
                # the consumer takes one result and abandons the rest
                g = iter(getattr(obj, method)())
                got = []
                for r in g:
                    got.append(r)
                    break
                if hasattr(g, "close"):
                    g.close()
                return ("ok", got)
            return ("ok", list(getattr(obj, method)()))
        except Exception as e:  # noqa: BLE001
            if exception_origin(e) != "lena":
                raise
            return ("raise", e)

    for op in sc.ops:
        if op[0] == "fill":
            v = make_value(sc, op[1], op[2], serial)
            tv = make_value(sc, op[1], op[2], serial)
            serial += 1
            log.ev("op", "fill", summarize(canon(v)))
            res.say("fill(%r)" % (summarize(canon(v)),))
            try:
                el.fill(v)
                twin.fill(tv)
            except Exception as e:  # noqa: BLE001
                if exception_origin(e) != "lena":
                    raise
                res.viol("C04:%s:fill:unexpected-exception:%s@%s" % (name, type(e).__name__, exception_site(e)),
                         repr(e)[:300])
                return
            filled.append(v)
            last_was_compute = False
        elif op[0] in ("compute", "partial"):
            log.ev("op", method if op[0] == "compute" else method + "-abandoned-after-one-result")
            if op[0] == "partial":
                res.fault("partial-compute-abandoned")
            out = call(el, op[0] == "partial")
            tout = call(twin, op[0] == "partial")
            if last_was_compute:
                res.probe("compute-twice-no-fill")
            last_was_compute = True
            if out[0] == "raise" or tout[0] == "raise":
                if out[0] != tout[0] or type(out[1]) is not type(tout[1]):
                    res.viol("C04:%s:scribble-on-result:changes-later-result" % mname,
                             "after the faults %s() gave %r, the fault-free twin %r"
                             % (method, summarize(canon(out)), summarize(canon(tout))))
                    return
                results.append([])
                continue
            rs = out[1]
            if len(rs) > 1:
                res.probe("several-results-per-compute")
            res.say("%s() -> %r" % (method, summarize(canon(rs))))
            log.ev("result", summarize(canon(rs)))
            if scribbled:
                res.probe("scribble-then-compute")
            # behaviour: the same as the fault-free twin
            if canon(rs) != canon(tout[1]):
                res.viol("C04:%s:scribble-on-result:changes-later-result" % mname,
                         "after a yielded context was overwritten, %s() yields %r; the same history "
                         "without the fault yields %r" % (method, summarize(canon(rs)), summarize(canon(tout[1]))))
                return
            # identity
            fc = {}
            for v in filled:
                c = result_context(v)
                if c is not None:
                    containers(c, fc)
            ec = {}
            for prev in results:
                for r in prev:
                    c = result_context(r)
                    if c is not None:
                        containers(c, ec)
            for r in rs:
                c = result_context(r)
                if c is None:
                    continue
                if not c:
                    res.probe("acc-empty-context-yielded")
                mine = containers(c)
                for i, obj in mine.items():
                    if i in fc:
                        res.viol("C04:%s:yielded-context-is-filled-context" % mname,
                                 "the context yielded by %s() shares a %s object with the context of "
                                 "a filled value" % (method, type(obj).__name__))
                        return
                    if i in ec:
                        res.viol("C04:%s:yielded-context-shared-with-earlier-result" % mname,
                                 "the context yielded by %s() shares a %s object with a context it "
                                 "yielded earlier" % (method, type(obj).__name__))
                        return
            # results of the same call must not share either
            seen = {}
            for k, r in enumerate(rs):
                c = result_context(r)
                if c is None:
                    continue
                for i in containers(c):
                    if i in seen and seen[i] != k:
                        res.viol("C04:%s:yielded-contexts-of-one-call-share-objects" % mname,
                                 "results %d and %d of one %s() share a mutable object" % (seen[i], k, method))
                        return
                    seen[i] = k
            results.append(rs)
        elif op[0] == "scribble-result":
            _, ci, ri = op
            if ci >= len(results) or not results[ci]:
                continue
            r = results[ci][ri % len(results[ci])]
            c = result_context(r)
            if c is None:
                continue
            # snapshots of everything else
            before_f = canon(filled)
            others = [canon([x for x in prev if x is not r]) for prev in results]
            n = scribble(c, "r%d" % ci)
            res.fault("scribble-on-yielded-context")
            res.nontrivial = True
            scribbled = True
            log.ev("op", "scribble-result", ci, ri, n)
            res.say("scribble(context of result %d of %s #%d)" % (ri, method, ci))
            if canon(filled) != before_f:
                res.viol("C04:%s:scribble-on-result:changes-filled-value" % mname,
                         "overwriting a yielded context changed a value that was filled: %r -> %r"
                         % (summarize(before_f), summarize(canon(filled))))
                return
            after = [canon([x for x in prev if x is not r]) for prev in results]
            if after != others:
                res.viol("C04:%s:scribble-on-result:changes-other-result" % mname,
                         "overwriting a yielded context changed another yielded result")
                return
        else:
            j = op[1]
            if j >= len(filled):
                continue
            v = filled[j]
            if result_context(v) is None:
                continue
            scribble(result_context(v), "f%d" % j)
            res.fault("scribble-on-filled-value")
            res.beyond["scribble-on-filled-value-then-stop-judging"] = \
                res.beyond.get("scribble-on-filled-value-then-stop-judging", 0) + 1
            log.ev("op", "scribble-filled", j)
            res.say("scribble(filled value %d): recorded only, the run is not judged further" % j)
            return


def run(tape):
    res = RunResult()
    sc = Spec()
    sc.part = tape.weighted([(1, "split"), (1, "acc")], "part")
    if sc.part == "split":
        run_split(tape, res, sc)
    else:
        run_acc(tape, res, sc)
    return res
