"""C16 - FillRequest processes the flow in consecutive blocks, however driven.

Histories of fill()/request() calls (request at drawn points between
fills), run(), FillRequestSeq and Split(bufsize=B) around the adapter;
every call runs under a deterministic step-budget watchdog; reference
model: the flow chunked into consecutive blocks.  DESIGN.md 3, C16.
"""
import itertools

import copy

import lena.core
import lena.flow

from ..kernel import RunResult, StepBudget, StepBudgetExceeded, summarize, exception_origin
from ..seams.flow import Tok, ProbeFR, ProbeCall

PROPERTY = "C16"
LEVEL = "fault_enumeration"
SWEEP = True
N_RUNS = {"quick": 300000, "thorough": 1600000}
RULE = ("each run draws a wrapped probe element (fill/compute with reset, fill/request, run "
        "element), bufsize n in 1..5, reset, buffer_input or buffer_output, yield_on_remainder, a "
        "wrapper (bare FillRequest, FillRequestSeq with pre/post callables around it, Split with "
        "block size B in {1,2,3,n,2n,n+1,1000,None}) and a flow of 0-12 unique values, and drives it "
        "by run(flow) and by a push history: fill(v) for every value with request() (fully "
        "consumed) inserted at drawn positions (swept in the thorough tier) and a final request(); "
        "every call is executed under a line-count watchdog; non-trivial = at least one complete "
        "block and, for push histories, at least one request() off a block boundary or a fill "
        "after a complete block; distinct = distinct abstracted event-kind sequences."
        " Since the seeded rounds also: wrapped elements that signal LenaStopFill themselves,"
        " elements with both interfaces, run elements with a reset method (asked for or not) and"
        " run elements that yield nothing for some blocks, bare None values in the flow, Reverse"
        " as post-element of FillRequestSeq, a stopping fill/request sibling in the Split, the"
        " same object run twice, and a flow of 1100 values between two requests."
        " Also: a deep copy of the adapter is driven in one history of five, fill/request"
        " elements that also have a compute method, elements whose methods have other names, flows"
        " of 70-99 values with block sizes 3, 5, 7.")
REAL = ["lena.core.FillRequest (fill, request, run, reset)", "lena.core.FillRequestSeq",
        "lena.core.Split (as the driver of a fill/request branch)", "lena.core.FillSeq"]
STUB = ["probe elements (record fill / compute / request / reset / run, results name the values "
        "they were computed from)", "drivers (run, push history, Split)", "step-budget watchdog "
        "(sys.settrace line counter)", "block model (the oracle)"]
ASSUMPTIONS = [
    "the flow handed to run() is an iterator, as Sequence.run guarantees",
    "what happens to the wrapped element after a remainder block is undefined by the code's own "
    "comments and is not judged; equality of push results with run is judged only for "
    "yield_on_remainder off, as the statement says",
    "occupancy (at most one block buffered) is judged at quiescent points: after a fully "
    "consumed request()",
    "a run element wrapped in FillRequest becomes a plain Sequence branch inside Split and is "
    "judged there only when B is a multiple of n or covers the flow",
]
FAULT_KINDS = ["request-off-block-boundary", "fill-after-complete-block", "request-with-nothing-filled",
               "split-block-not-dividing", "double-request", "sibling-fill-request-branch-stops",
               "wrapped-element-signals-LenaStopFill"]
EXPECTED_PROBES = ["push-buffer_output-overflow", "push-buffer_input-overflow", "remainder-yielded",
                   "split-B-coprime-to-n", "split-B-multiple-of-n", "fillrequestseq-push", "reset-on",
                   "watchdog-guarded-calls", "element-stops-in-the-last-slot-of-a-block",
                   "post-element-sees-several-results-of-one-request", "same-object-run-twice",
                   "thousand-blocks-between-two-requests", "none-values-in-the-flow",
                   "element-with-both-interfaces", "run-element-with-reset-method-unasked",
                   "run-element-with-reset-method-asked", "deep-copied-adapter",
                   "element-with-request-and-compute", "element-with-renamed-methods",
                   "second-live-adapter", "request-returns-the-elements-own-list"]

BUDGET = 200000


class Spec(object):
    pass


def mk(s):
    """flow value for serial s (a bare None stands for itself: it is a legal value)"""
    return None if s is None else Tok(s)


def ser(v):
    return None if v is None else v.serial


class ProbeFCR(object):
    """fill/compute probe with reset; results name everything filled since the
    last reset."""

    def __init__(self, log, name, results=1, stop_at=None):
        self.log = log
        self.name = name
        self.filled = []
        self.all_fills = []
        self.results = results
        self.ncomp = 0
        self.nreset = 0
        self.stop_at = stop_at     # the element itself signals LenaStopFill at its k-th fill
        self.copies = []

    def __deepcopy__(self, memo):
        # a copy of the element with the same (shared) event log; the original knows its copies
        new = type(self)(self.log, self.name, self.results, self.stop_at)
        new.filled = list(self.filled)
        new.all_fills = list(self.all_fills)
        new.ncomp = self.ncomp
        new.nreset = self.nreset
        self.copies.append(new)
        return new

    def fill(self, v):
        if self.stop_at is not None and len(self.all_fills) >= self.stop_at:
            self.log.ev("stopfill", self.name, ser(v))
            raise lena.core.LenaStopFill()
        self.log.ev("fill", self.name, ser(v))
        self.filled.append(ser(v))
        self.all_fills.append(ser(v))

    def compute(self):
        c = self.ncomp
        self.ncomp += 1
        self.log.ev("compute", self.name, c)
        vals = tuple(self.filled)
        for j in range(self.results):
            yield (self.name, j, vals)

    def reset(self):
        self.nreset += 1
        self.log.ev("reset", self.name)
        self.filled = []


class ProbeFRR(ProbeFCR):
    """the same with request() instead of compute()"""

    def request(self):
        return ProbeFCR.compute(self)

    compute = None


class ProbeFRRList(ProbeFRR):
    """request() returns a list, the element's own: it is filled anew in place by the next
    request and emptied by reset (what was handed out earlier must have been taken by then)"""

    def __init__(self, *args, **kwargs):
        ProbeFRR.__init__(self, *args, **kwargs)
        self._out = []

    def request(self):
        self._out[:] = list(ProbeFCR.compute(self))
        return self._out

    def reset(self):
        ProbeFRR.reset(self)
        del self._out[:]


class ProbeFRRenamed(ProbeFRR):
    """fill / request / reset under other names (given to the adapter); the method called fill
    is something else and must not be used"""

    def add(self, v):
        ProbeFRR.fill(self, v)

    def ask(self):
        return ProbeFRR.request(self)

    def clear(self):
        ProbeFRR.reset(self)

    def fill(self, v):
        self.log.ev("decoy-fill", self.name)

    request = None


class ProbeFRRDecoy(ProbeFRR):
    """fill and request, and also a compute that must not be used (request is there)"""

    def compute(self):
        self.log.ev("compute-decoy", self.name)
        yield (self.name, "decoy")


class ProbeBoth(ProbeFRR):
    """an element that offers both interfaces, consistently: run over a flow is fill for
    every value followed by one request"""

    def run(self, flow):
        self.log.ev("runbody", self.name, self.ncomp)
        for v in flow:
            self.fill(v)
        for r in self.request():
            yield r


class ProbeRunEl(object):
    """run element: one result per invocation naming the values it got, plus
    (optionally) one result per value."""

    def __init__(self, log, name, per_value=False, selective=False):
        self.log = log
        self.name = name
        self.per_value = per_value
        # like a Filter: results only for some values, nothing at all for some blocks
        self.selective = selective
        self.nruns = 0
        self.all_fills = []
        self.stateful = False   # results tell how many values were seen since the last reset
        self.carry = 0
        self.nreset = 0

    def run(self, flow):
        r = self.nruns
        self.nruns += 1
        self.log.ev("runbody", self.name, r)
        vals = []
        before = self.carry
        for v in flow:
            self.log.ev("runval", self.name, ser(v))
            vals.append(ser(v))
            self.all_fills.append(ser(v))
            self.carry += 1
            if self.selective:
                if v is not None and v.serial % 4 == 3:
                    yield (self.name, "v", v.serial)
            elif self.per_value:
                yield (self.name, "v", ser(v))
        if not self.selective:
            if self.stateful:
                yield (self.name, 0, tuple(vals), before)
            else:
                yield (self.name, 0, tuple(vals))


class ProbeRunElReset(ProbeRunEl):
    """a run element that happens to have a reset method"""

    def reset(self):
        self.nreset += 1
        self.log.ev("reset", self.name)
        self.carry = 0


def gen_scenario(tape):
    sc = Spec()
    sc.kind = tape.choice(["fc", "fr", "run"], "element-kind")
    sc.n = 1 + tape.draw(5, "bufsize")
    sc.reset = bool(tape.draw(2, "reset"))
    sc.buffer = tape.choice(["input", "output"], "buffer")
    sc.remainder = tape.chance(1, 4, "yield-on-remainder")
    sc.results = 1 + tape.draw(2, "results")
    sc.per_value = bool(tape.draw(2, "per-value")) if sc.kind == "run" else False
    sc.selective = sc.kind == "run" and tape.chance(1, 3, "run-element-yields-nothing-for-some-blocks")
    sc.len = tape.draw(13, "flowlen")
    sc.wrapper = tape.weighted([(3, "bare"), (2, "seq"), (3, "split")], "wrapper")
    if sc.wrapper == "seq":
        # FillRequestSeq needs an element with fill and request; with yield_on_remainder the
        # inner adapter would yield a remainder at every per-value request of the outer one
        if sc.kind == "run":
            sc.kind = "fr"
        sc.remainder = False
    sc.npre = tape.draw(2, "npre") if sc.wrapper == "seq" else 0
    sc.npost = tape.draw(2, "npost") if sc.wrapper == "seq" else 0
    sc.driver = tape.weighted([(2, "run"), (5, "push")], "driver")
    sc.outer_reset = bool(tape.draw(2, "outer-reset")) if sc.wrapper == "seq" else False
    if sc.kind == "run":
        sc.driver = "run"
        if sc.reset:
            sc.reset = False     # a run element has no reset
    if sc.wrapper == "split":
        n = sc.n
        sc.B = tape.choice([1, 2, 3, n, 2 * n, n + 1, 1000, None], "split-bufsize")
        sc.driver = "split"
        sc.sib_before = tape.draw(2, "sib-before")
        sc.sib_after = tape.draw(2, "sib-after")
        # a fill/request sibling in front of the adapter that signals LenaStopFill after k values
        sc.stopper = tape.draw(6, "stopper-k") if tape.chance(1, 4, "stopping-fr-sibling") else None
    # the same object runs a second flow afterwards
    sc.second_run = tape.draw(9, "second-flow-len") if (sc.driver == "run" and tape.chance(1, 3, "run-twice")) else None
    # many blocks buffered between two requests (a Split with its default bufsize of 1000 does that)
    sc.long = sc.driver == "push" and sc.wrapper == "bare" and tape.chance(1, 60, "long-flow")
    if sc.long:
        # bufsize 1 and 1100 values, or a block size that divides no power of two and 70-99 values
        sc.n = tape.choice([1, 3, 5, 7], "long-bufsize")
        sc.len = 1100 if sc.n == 1 else 70 + tape.draw(30, "long-len")
        sc.remainder = False
        sc.buffer = "input"
    # the wrapped element itself signals LenaStopFill at its k-th fill (push and Split drivers)
    sc.stop_at = None
    if sc.kind in ("fc", "fr") and sc.driver in ("push", "split") and not sc.long \
            and tape.chance(1, 5, "element-stops"):
        sc.stop_at = tape.draw(sc.len + 1, "stop-at", sweep=True)
    # a post-element of FillRequestSeq that relates the results of one request to each other
    sc.post_reverse = sc.wrapper == "seq" and tape.chance(1, 3, "post-reverse")
    if sc.stop_at is not None:
        # with buffer_input the element would be filled (and would stop) inside request():
        # what request() owes its caller then is not stated anywhere, so it is not generated
        sc.buffer = "output"
        sc.remainder = False
    # a run element that happens to have a reset method: it is reset between blocks only when
    # reset is asked for
    sc.run_reset = "none"
    if sc.kind == "run" and sc.driver == "run" and sc.wrapper == "bare":
        sc.run_reset = tape.weighted([(2, "none"), (1, "unasked"), (1, "asked")], "run-element-reset-method")
    # an element with both interfaces (run, and fill with request)
    sc.both = sc.kind == "fr" and sc.wrapper != "seq" and tape.chance(1, 4, "element-with-both-interfaces")
    # a fill/request element that also has a compute method
    sc.fr_decoy = sc.kind == "fr" and not sc.both and tape.chance(1, 4, "request-and-compute")
    # the methods of the wrapped element have other names, given to the adapter
    sc.renamed = sc.kind == "fr" and not sc.both and not sc.fr_decoy and tape.chance(1, 5, "renamed-methods")
    # request() of the element returns a list of its own that it changes in place later
    sc.own_list = (sc.kind == "fr" and not sc.both and not sc.fr_decoy and not sc.renamed
                   and tape.chance(1, 5, "request-returns-the-elements-own-list"))
    # the adapter that is driven is a deep copy
    sc.deepcopy = sc.kind in ("fc", "fr") and tape.chance(1, 5, "deep-copied-adapter")
    # a second adapter of the same kind is alive at the same time and is filled in turn with
    # values of its own (two FillRequest branches of a Split driven by fill, nested adapters)
    sc.twin = (sc.driver == "push" and sc.wrapper == "bare" and not sc.long and sc.stop_at is None
               and tape.chance(1, 4, "second-live-adapter"))
    # bare None values in the flow
    sc.nones = []
    if not sc.long and tape.chance(1, 4, "none-values"):
        sc.nones = [p for p in range(sc.len) if tape.draw(3, "none-here") == 0]
    # request points for the push history: position p means "after p fills"
    sc.reqs = []
    if sc.driver == "push" and not sc.long:
        for p in range(sc.len + 1):
            if tape.draw(3, "request-here", sweep=(p < 7)) == 2:
                sc.reqs.append(p)
        if tape.chance(1, 6, "double-request") and sc.reqs:
            sc.reqs.append(sc.reqs[tape.draw(len(sc.reqs), "which")])
            sc.reqs.sort()
    return sc


def make_probe(sc, log):
    if sc.kind == "fc":
        return ProbeFCR(log, "el", sc.results, getattr(sc, "stop_at", None))
    if sc.kind == "fr" and getattr(sc, "both", False):
        return ProbeBoth(log, "el", sc.results, getattr(sc, "stop_at", None))
    if sc.kind == "fr" and getattr(sc, "renamed", False):
        return ProbeFRRenamed(log, "el", sc.results, getattr(sc, "stop_at", None))
    if sc.kind == "fr" and getattr(sc, "fr_decoy", False):
        return ProbeFRRDecoy(log, "el", sc.results, getattr(sc, "stop_at", None))
    if sc.kind == "fr" and getattr(sc, "own_list", False):
        return ProbeFRRList(log, "el", sc.results, getattr(sc, "stop_at", None))
    if sc.kind == "fr":
        return ProbeFRR(log, "el", sc.results, getattr(sc, "stop_at", None))
    rr = getattr(sc, "run_reset", "none")
    cls = ProbeRunEl if rr == "none" else ProbeRunElReset
    p = cls(log, "el", sc.per_value, getattr(sc, "selective", False))
    p.stateful = rr != "none"
    return p


def make_adapter(sc, probe):
    ad = _make_adapter(sc, probe)
    if getattr(sc, "deepcopy", False):
        # what is driven is a deep copy of the adapter (as Vectorize or a user copying a Split
        # would make): it must work on its own copy of the element
        ad = copy.deepcopy(ad)
    return ad


def current_probe(sc, probe):
    """the probe that the driven adapter wraps"""
    if getattr(sc, "deepcopy", False) and probe.copies:
        return probe.copies[-1]
    return probe


def _make_adapter(sc, probe):
    kw = dict(bufsize=sc.n, yield_on_remainder=sc.remainder)
    if sc.buffer == "input":
        kw["buffer_input"] = True
    else:
        kw["buffer_output"] = True
    if getattr(sc, "renamed", False):
        kw.update(fill="add", request="ask", reset_name="clear")
    if sc.kind == "run":
        if getattr(sc, "run_reset", "none") == "asked":
            return lena.core.FillRequest(probe, reset=True, **kw)
        # reset is not given: the element is not reset, whether it has such a method or not
        return lena.core.FillRequest(probe, **kw)
    return lena.core.FillRequest(probe, reset=sc.reset, **kw)


def wrap(sc, adapter, log):
    """(object to drive, post functions applied to results)"""
    if sc.wrapper != "seq":
        return adapter
    els = [ProbeCall(log, "pre%d" % j, fn=lambda v: v) for j in range(sc.npre)]
    els.append(adapter)
    els += [ProbeCall(log, "post%d" % j, fn=lambda r, j=j: ("post%d" % j, r))
            for j in range(sc.npost)]
    if getattr(sc, "post_reverse", False):
        els.append(lena.flow.Reverse())
    # the outer reset flag concerns only FillRequestSeq.run (reset after each outer block);
    # in a push history fill and request go straight to the inner adapter
    outer_reset = bool(sc.outer_reset and sc.driver == "push")
    return lena.core.FillRequestSeq(*els, bufsize=1, reset=outer_reset, buffer_input=True)


# ---------------------------------------------------------------------------
# block model

def model_blocks(sc, values):
    """Expected results of run() over *values* (serials)."""
    n = sc.n
    out = []
    filled = []     # what the element holds (since its last reset)
    carry = 0       # values a stateful run element has seen since its last reset
    i = 0
    while i < len(values):
        block = values[i:i + n]
        i += n
        if sc.kind == "run":
            if len(block) < n and not sc.remainder:
                break
            if getattr(sc, "selective", False):
                out.extend(("el", "v", s) for s in block if s is not None and s % 4 == 3)
                continue
            if sc.per_value:
                out.extend(("el", "v", s) for s in block)
            rr = getattr(sc, "run_reset", "none")
            if rr == "none":
                out.append(("el", 0, tuple(block)))
            else:
                out.append(("el", 0, tuple(block), carry))
                carry = 0 if rr == "asked" else carry + len(block)
            continue
        filled.extend(block)
        if len(block) < n:
            if sc.remainder:
                out.extend(("el", j, tuple(filled)) for j in range(sc.results))
            break
        out.extend(("el", j, tuple(filled)) for j in range(sc.results))
        if sc.reset:
            filled = []
    return out


def model_per_block(sc, values):
    """list of the result lists of the complete blocks (post-elements applied)"""
    n = sc.n
    out = []
    filled = []
    i = 0
    while i + n <= len(values):
        block = values[i:i + n]
        i += n
        filled.extend(block)
        out.append(apply_post(sc, [("el", j, tuple(filled)) for j in range(sc.results)]))
        if sc.reset:
            filled = []
    return out


def apply_post(sc, results):
    for j in range(sc.npost):
        results = [("post%d" % j, r) for r in results]
    return results


def guarded(res, what, fn):
    """Run fn() under the watchdog; returns (value, hang?)."""
    try:
        with StepBudget(BUDGET) as sb:
            v = fn()
        res.probe("watchdog-guarded-calls")
        if sb.used > res.probes.get("_maxlines", 0):
            res.probes["_maxlines"] = sb.used
        return v, False
    except StepBudgetExceeded:
        res.log.ev("hang", what)
        return None, True


def run(tape):
    res = RunResult()
    log = res.log
    sc = gen_scenario(tape)
    res.say("FillRequest(%s probe, bufsize=%d, reset=%s, buffer_%s, yield_on_remainder=%s), wrapper=%s%s, "
            "flow of %d values" % (sc.kind, sc.n, sc.reset, sc.buffer, sc.remainder, sc.wrapper,
                                   " pre=%d post=%d" % (sc.npre, sc.npost) if sc.wrapper == "seq" else
                                   (" B=%s siblings %d/%d%s" % (sc.B, sc.sib_before, sc.sib_after,
                                                                 "" if getattr(sc, "stopper", None) is None
                                                                 else ", stopping fill/request sibling Slice(%d)" % sc.stopper)
                                    if sc.wrapper == "split" else ""), sc.len))
    values = list(range(sc.len))
    for p in sc.nones:
        values[p] = None
    if sc.nones:
        res.probe("none-values-in-the-flow")
        res.say("the values at positions %r are None" % (sc.nones,))
    if sc.deepcopy:
        res.probe("deep-copied-adapter")
        res.say("a deep copy of the adapter is driven")
    if sc.renamed:
        res.probe("element-with-renamed-methods")
        res.say("the methods of the wrapped element are called add / ask / clear")
    if getattr(sc, "own_list", False):
        res.probe("request-returns-the-elements-own-list")
        res.say("request() of the wrapped element returns a list of its own, refilled in place later")
    if sc.fr_decoy:
        res.probe("element-with-request-and-compute")
        res.say("the wrapped element has request and also a compute method")
    if sc.both:
        res.probe("element-with-both-interfaces")
        res.say("the wrapped element has run as well as fill and request")
    if sc.run_reset != "none":
        res.probe("run-element-with-reset-method-%s" % sc.run_reset)
        res.say("the run element has a reset method; reset is %s" % (
            "True" if sc.run_reset == "asked" else "not given"))
    cfg = "%s:%s" % ("buffer_" + sc.buffer, "remainder" if sc.remainder else "blocks")
    if sc.reset:
        res.probe("reset-on")
    try:
        if sc.driver == "run":
            drive_run(sc, res, values, cfg)
        elif sc.driver == "push":
            drive_push(sc, res, values, cfg)
        else:
            drive_split(sc, res, values, cfg)
    except Exception as e:  # noqa: BLE001
        if exception_origin(e) != "lena":
            raise
        from ..kernel import exception_site
        res.viol("C16:FillRequest:%s:%s:unexpected-exception:%s@%s" % (
            sc.driver, cfg, type(e).__name__, exception_site(e)), repr(e)[:300])
    res.probes.pop("_maxlines", None)
    return res


def check_probe_log(sc, res, probe, values, nblocks_emitted, cfg, driver):
    """fills in arrival order exactly once; one request per emitted block; one reset per full
    block when reset is on."""
    fills = probe.all_fills
    if fills != values[:len(fills)]:
        res.viol("C16:FillRequest:%s:%s:values-not-filled-exactly-once-in-order" % (driver, cfg),
                 "the wrapped element was filled with %r; the flow is %r" % (fills, values))
        return False
    return True


def drive_run(sc, res, values, cfg):
    log = res.log
    probe = make_probe(sc, log)
    obj = wrap(sc, make_adapter(sc, probe), log)
    probe = current_probe(sc, probe)
    log.ev("op", "run", len(values))
    flow = iter([mk(s) for s in values])
    got, hang = guarded(res, "run", lambda: list(obj.run(flow)))
    if hang:
        res.viol("C16:FillRequest:run:%s:hang" % cfg, "run() over %d values exceeded the step "
                 "budget of %d lines" % (len(values), BUDGET))
        return
    exp = apply_post(sc, model_blocks(sc, values))
    if getattr(sc, "post_reverse", False) and not sc.remainder:
        # FillRequestSeq.run requests after every value (outer bufsize 1): Reverse sees the results
        # of one block at a time
        exp = [x for b in model_per_block(sc, values) for x in reversed(b)]
    log.ev("result", "run", summarize(got))
    nfull = len(values) // sc.n
    if nfull:
        res.nontrivial = True
    if sc.remainder and len(values) % sc.n:
        res.probe("remainder-yielded")
    if got != exp:
        what = "remainder" if got[:len(exp)] == exp or exp[:len(got)] == got else "blocks"
        res.viol("C16:FillRequest:run:%s:%s-element:results-differ-from-block-model" % (cfg, sc.kind),
                 "run(%r) with bufsize %d gave %r, consecutive blocks give %r" % (values, sc.n, got, exp))
        return
    if not check_probe_log(sc, res, probe, values, nfull, cfg, "run"):
        return
    if sc.kind != "run" and not getattr(sc, "both", False):
        # one request per emitted block, one reset after each full block
        emitted = nfull + (1 if (sc.remainder and len(values) % sc.n) else 0)
        if probe.ncomp != emitted:
            res.viol("C16:FillRequest:run:%s:request-count" % cfg,
                     "%d blocks were emitted but the element's request/compute ran %d times"
                     % (emitted, probe.ncomp))
            return
        if sc.reset and probe.nreset != nfull and not (sc.remainder and len(values) % sc.n):
            res.viol("C16:FillRequest:run:%s:reset-count" % cfg,
                     "%d full blocks but %d resets" % (nfull, probe.nreset))


    if getattr(sc, "second_run", None) is not None and not sc.remainder and sc.wrapper == "bare" \
            and not getattr(sc, "both", False):
        # the same object runs a second flow.  What the wrapped element still holds of an
        # incomplete last block is not defined; that every new value is filled exactly once, in
        # order, and that one block of results is emitted per bufsize new values, is.
        first_fills = len(probe.all_fills)
        first_comp = getattr(probe, "ncomp", 0)
        if res.violations:
            return
        vals2 = list(range(1000, 1000 + sc.second_run))
        log.ev("op", "run-again", len(vals2))
        res.probe("same-object-run-twice")
        got2, hang = guarded(res, "run", lambda: list(obj.run(iter([Tok(s) for s in vals2]))))
        if hang:
            res.viol("C16:FillRequest:run-again:%s:hang" % cfg, "the second run() exceeded the step budget")
            return
        fills2 = probe.all_fills[first_fills:]
        if sc.kind != "run" and fills2 != vals2:
            res.viol("C16:FillRequest:run-again:%s:values-not-filled-exactly-once-in-order" % cfg,
                     "second run of the same object over %r: the wrapped element was filled with %r"
                     % (vals2, fills2))
            return
        if sc.kind != "run":
            nblocks2 = getattr(probe, "ncomp", 0) - first_comp
            if nblocks2 != len(vals2) // sc.n or len(got2) != nblocks2 * sc.results:
                res.viol("C16:FillRequest:run-again:%s:block-count" % cfg,
                         "second run of the same object over %d values with bufsize %d emitted %d "
                         "results in %d blocks (the first run had an incomplete last block of %d)"
                         % (len(vals2), sc.n, len(got2), nblocks2, len(values) % sc.n))
                return


def occupancy(adapter, n):
    bi = getattr(adapter, "_buffer_in", None) or []
    bo = getattr(adapter, "_buffer_out", None) or []
    try:
        return len(bi), len(bo)
    except TypeError:
        return 0, 0


def drive_push(sc, res, values, cfg):
    log = res.log
    if getattr(sc, "long", False):
        res.probe("thousand-blocks-between-two-requests")
    probe = make_probe(sc, log)
    adapter = make_adapter(sc, probe)
    probe = current_probe(sc, probe)
    obj = wrap(sc, adapter, log)
    if sc.wrapper == "seq":
        res.probe("fillrequestseq-push")
    got = []
    reqs = list(sc.reqs)
    res.say("push history: request() after fills %r, then a final request()%s%s" % (
        reqs, "" if sc.stop_at is None else "; the element signals LenaStopFill at its fill #%d" % sc.stop_at,
        "; Reverse as last post-element" if sc.post_reverse else ""))
    n = sc.n
    since = 0   # fills since the last request
    accepted = len(values) if sc.stop_at is None else min(sc.stop_at, len(values))
    blocks = model_per_block(sc, values[:accepted])
    expected = []       # what the request() calls must have yielded so far
    emitted = [0]       # complete blocks whose results were already requested
    stopped = [False]

    def do_request(pos, final=False):
        log.ev("op", "request", pos)
        if pos % n:
            res.fault("request-off-block-boundary")
        if pos == 0:
            res.fault("request-with-nothing-filled")
        r, hang = guarded(res, "request", lambda: list(obj.request()))
        if hang:
            res.viol("C16:FillRequest:push:%s:request:hang" % cfg,
                     "request() after %d fills exceeded the step budget" % pos)
            return False
        log.ev("result", "request", summarize(r))
        got.extend(r)
        complete = min(pos, accepted) // n
        mine = [x for b in blocks[emitted[0]:complete] for x in b]
        if sc.post_reverse:
            # Reverse sees the whole flow of results of this request
            mine.reverse()
            if len(mine) >= 2:
                res.probe("post-element-sees-several-results-of-one-request")
        expected.extend(mine)
        emitted[0] = max(emitted[0], complete)
        bi, bo = occupancy(adapter, n)
        if bi >= n or bo > 0:
            res.viol("C16:FillRequest:push:%s:buffers-not-drained-by-request" % cfg,
                     "after a fully consumed request() the adapter still holds %d buffered "
                     "values and %d buffered results (block size %d)" % (bi, bo, n))
            return False
        return True

    twin = twin_probe = None
    twin_filled = []
    if getattr(sc, "twin", False):
        twin_probe = make_probe(sc, log)
        twin_probe.name = "twin"
        twin = _make_adapter(sc, twin_probe)
        res.probe("second-live-adapter")
        res.say("a second adapter of the same kind is filled in turn with values of its own "
                "(1000, 1001, ...) and asked only at the end")
    pos = 0
    ri = 0
    prev_req = None
    for s in values:
        if twin is not None:
            t = 1000 + len(twin_filled)
            _, hang = guarded(res, "fill", lambda t=t: twin.fill(mk(t)))
            if hang:
                res.viol("C16:FillRequest:push:%s:second-adapter:fill:hang" % cfg,
                         "fill(#%d) of the second adapter did not return" % t)
                return
            twin_filled.append(t)
        while ri < len(reqs) and reqs[ri] == pos:
            if prev_req == pos:
                res.fault("double-request")
            prev_req = pos
            if not do_request(pos):
                return
            since = 0
            ri += 1
        log.ev("op", "fill", s)
        if since >= n:
            res.fault("fill-after-complete-block")
            res.probe("push-buffer_%s-overflow" % sc.buffer)
        def fill_one(s=s):
            try:
                obj.fill(mk(s))
            except lena.core.LenaStopFill:
                stopped[0] = True
        _, hang = guarded(res, "fill", fill_one)
        if hang:
            res.viol("C16:FillRequest:push:%s:fill-after-%s:hang" % (
                cfg, "full-block" if since >= n else "partial-block"),
                "fill(#%d) did not return within the step budget (%d fills since the last "
                "request, block size %d)" % (s, since, n))
            return
        if stopped[0]:
            # as Split does: no more fills, one request
            res.fault("wrapped-element-signals-LenaStopFill")
            if pos % n == n - 1:
                res.probe("element-stops-in-the-last-slot-of-a-block")
            break
        pos += 1
        since += 1
    while ri < len(reqs) and not stopped[0]:
        if not do_request(pos):
            return
        ri += 1
    if not do_request(pos, final=True):
        return
    if twin is not None:
        # the other adapter accounts for its own values, all of them and nothing else
        r, hang = guarded(res, "request", lambda: list(twin.request()))
        if hang:
            res.viol("C16:FillRequest:push:%s:second-adapter:request:hang" % cfg,
                     "request() of the second adapter did not return")
            return
        log.ev("result", "twin-request", summarize(r))
        theld = occupancy(twin, n)[0]
        tf = twin_probe.all_fills
        if tf != twin_filled[:len(tf)] or len(tf) + theld != len(twin_filled):
            res.viol("C16:FillRequest:push:%s:two-adapters:values-not-accounted-for-exactly-once" % cfg,
                     "a second adapter was filled with %r; its element saw %r and it holds %d "
                     "buffered values" % (twin_filled, tf, theld))
            return
        texp = [("twin",) + tuple(x[1:]) for b in model_per_block(sc, twin_filled) for x in b]
        if not sc.remainder and r != texp:
            res.viol("C16:FillRequest:push:%s:two-adapters:results-differ-from-run" % cfg,
                     "a second adapter filled with %r and asked once gave %r; run over its flow "
                     "gives %r" % (twin_filled, r, texp))
            return
    if len(values) >= n and (any(p % n for p in reqs) or any(
            b - a > n for a, b in zip([0] + reqs, reqs + [len(values)]))):
        res.nontrivial = True
    # exactly once, in order; none lost
    fills = probe.all_fills
    held = occupancy(adapter, n)[0]
    if fills != values[:len(fills)]:
        res.viol("C16:FillRequest:push:%s:values-not-filled-exactly-once-in-order" % cfg,
                 "the wrapped element was filled with %r; the flow is %r" % (fills, values))
        return
    if len(fills) + held != pos:
        res.viol("C16:FillRequest:push:%s:values-lost" % cfg,
                 "%d values were filled, the element saw %d and %d are buffered"
                 % (pos, len(fills), held))
        return
    if not sc.remainder:
        exp = expected
        if got != exp:
            res.viol("C16:FillRequest:push:%s:results-differ-from-run" % cfg,
                     "fill/request history (requests after %r) gave %r; run over the whole flow "
                     "gives %r" % (reqs, got, exp))


def drive_split(sc, res, values, cfg):
    log = res.log
    probe = make_probe(sc, log)
    adapter = make_adapter(sc, probe)
    probe = current_probe(sc, probe)
    B = sc.B
    n = sc.n
    branches = []
    for j in range(sc.sib_before):
        branches.append(lena.core.Sequence(lambda v, j=j: ("sibA%d" % j, ser(v))))
    if getattr(sc, "stopper", None) is not None:
        # it is removed from the Split when it stops; the adapter behind it must still get
        # every value of every block
        res.fault("sibling-fill-request-branch-stops")
        branches.append((lena.flow.Slice(sc.stopper),
                         lena.core.FillRequest(lena.flow.StoreFilled(), bufsize=1, reset=True,
                                               buffer_input=True)))
    branches.append(adapter)
    for j in range(sc.sib_after):
        branches.append(lena.core.Sequence(lambda v, j=j: ("sibB%d" % j, ser(v))))
    split = lena.core.Split(branches, bufsize=B)
    log.ev("op", "split-run", len(values), str(B))
    flow = iter([mk(s) for s in values])
    got, hang = guarded(res, "split", lambda: list(split.run(flow)))
    if hang:
        res.viol("C16:FillRequest:split:%s:hang" % cfg,
                 "Split(bufsize=%s) around the adapter exceeded the step budget" % (B,))
        return
    got = [x for x in got if not (isinstance(x, tuple) and isinstance(x[0], str)
                                  and x[0].startswith("sib"))]
    # results of the stopping sibling are lists of tokens
    got = [x for x in got if not isinstance(x, list)]
    log.ev("result", "split", summarize(got))
    if B is not None and B < len(values):
        if B % n == 0:
            res.probe("split-B-multiple-of-n")
        else:
            res.fault("split-block-not-dividing")
            if B > 1 and n > 1 and (B % n) and (n % B):
                res.probe("split-B-coprime-to-n")
    if len(values) >= n:
        res.nontrivial = True
    if sc.remainder:
        return
    if sc.kind == "run" and not (B is None or B >= len(values) or B % n == 0):
        return
    acc_n = len(values) if getattr(sc, "stop_at", None) is None else min(sc.stop_at, len(values))
    if acc_n < len(values):
        res.fault("wrapped-element-signals-LenaStopFill")
        values = values[:acc_n]
    exp = model_blocks(sc, values)
    if got != exp:
        res.viol("C16:FillRequest:split:%s:%s-element:results-differ-from-run" % (cfg, sc.kind),
                 "Split(bufsize=%s) around FillRequest(bufsize=%d) gave %r; run over the whole "
                 "flow gives %r" % (B, n, got, exp))
        return
    fills = probe.all_fills
    if fills != values[:len(fills)]:
        res.viol("C16:FillRequest:split:%s:values-not-filled-exactly-once-in-order" % cfg,
                 "the wrapped element was filled with %r; the flow is %r" % (fills, values))
