"""C09 - accumulators yield the documented aggregate; reset() equals a fresh element.

Operation histories  fill* (compute | partial compute | reset | fill)*
over one framework accumulator, checked operation by operation against an
independent reference aggregate (exact rationals where the documentation
promises exactness) and, after every reset(), against a freshly
constructed twin that receives the same suffix of the history.
DESIGN.md section 3, C09.
"""
import copy
import decimal
import math
from fractions import Fraction

import lena.core
import lena.flow
import lena.math
import lena.structures

from ..kernel import RunResult, summarize, exception_origin, exception_site, StepBudget, StepBudgetExceeded

PROPERTY = "C09"
LEVEL = "exploration"
ABSTRACT_WIDTH = 3
N_RUNS = {"quick": 250000, "thorough": 9000000}
RULE = ("each run draws one framework accumulator with its constructor arguments (Count, Sum, "
        "DSum with start values; Mean plain / pass_on_empty / over Sum / over DSum; "
        "VarianceMeanCount corrected or not, pass_on_empty; Vectorize over Sum, DSum, Mean, Count "
        "with dim or a list; StoreFilled in both yield modes; GroupBy default / by key / by a "
        "tuple of keys; Histogram 1- and 2-dimensional with edges only, initial bins, make_bins, "
        "initial_value; the deprecated Graph; FillRequest, FillRequestSeq and Zip as elements that "
        "have a reset method) and a history of 0-25 operations fill(v) / compute() fully or "
        "partially consumed / reset(); values are small integers, dyadic floats, floats of wildly "
        "mixed magnitude (cancelling 1e308, 1e16, denormals, 0.1-like non-dyadics) and each value "
        "independently comes bare, with an empty context or with a fresh nested context; after "
        "every operation the yielded results are compared with an independent reference aggregate "
        "and, after a reset, with a freshly constructed twin fed the same suffix; non-trivial = "
        "at least one compute after at least two fills, or a fill after a reset; distinct = "
        "distinct abstracted event-kind sequences."
        " Since the seeded rounds also: big integers and Fractions, dotted counter names, None"
        " among group keys, nested group contexts in permuted insertion order, Vectorize over item"
        " stores and over components of unequal result counts, results updated in place / asked"
        " for their scale downstream as soon as they are yielded, and earlier results compared"
        " again after later operations."
        " Also: edges that start below zero and the largest floats below an edge with a line-"
        " count watchdog around Histogram.fill; group keys 1, 1.0 and True.")
REAL = ["lena.flow.Count", "lena.flow.StoreFilled", "lena.flow.GroupBy", "lena.math.Sum", "lena.math.DSum",
        "lena.math.Mean", "lena.math.VarianceMeanCount", "lena.math.Vectorize",
        "lena.structures.Histogram", "lena.structures.Graph (deprecated element)",
        "lena.core.FillRequest.reset", "lena.core.FillRequestSeq.reset", "lena.flow.Zip (reset over "
        "fill/request branches)", "copy.deepcopy", "decimal"]
STUB = ["history driver (fill / compute / partial compute / reset at drawn points)",
        "reference aggregates (len, left fold and builtin sum, Fraction-exact sums, rational "
        "variance, dictionary-of-cells histogram, first-appearance grouping)",
        "fresh twin constructed by the same factory after every reset"]
ASSUMPTIONS = [
    "Sum of floats: either the left fold (total += x) or CPython's compensated builtin sum() is "
    "accepted, as 'Python's sum' can be read both ways; integers coincide",
    "DSum is judged on the exact rational value of what it yields (a Decimal), not on its type",
    "VarianceMeanCount inputs are small dyadic numbers (sums exact in binary floating point); "
    "variance and mean are compared with rational arithmetic within 1e-9",
    "elements are compared with a fresh twin built with the documented reset target: Sum, DSum "
    "and Count reset to zero, not to their start value; Graph resets to no points",
    "GroupBy keys and Histogram cells are modelled independently (first appearance order, "
    "lower edge inclusive, upper edge exclusive)",
    "values are finite; NaN and infinities are not generated",
]
FAULT_KINDS = ["reset-mid-history", "partial-compute-abandoned", "double-compute", "compute-on-empty",
               "cancelling-huge-floats", "context-drops-to-empty"]
EXPECTED_PROBES = ["reset-then-fill-then-compute", "two-resets", "dsum-precision-raised", "dsum-after-reset",
                   "last-value-bare-after-context", "start-value-nonzero", "histogram-out-of-range",
                   "histogram-initial-bins", "histogram-make_bins", "compute-raises-documented-error",
                   "vectorize", "groupby-several-groups", "graph-scale-from-context",
                   "fillrequest-reset"]

_TIER = ["quick"]


def set_tier(t):
    _TIER[0] = t


class Spec(object):
    pass


MISSING = "<none>"

# --------------------------------------------------------------------------
# values

INTS = [0, 1, 2, 3, -1, 5, -4, 7, 10, 20]
DYADIC = [0.5, 1.5, -0.25, 2.0, 0.125, 3.75, -2.5, 8.0, 0.0]
WILD = [1e308, 1.0, -1e308, 1e16, -1e16, 0.1, 0.2, 0.3, 1e-300, 5e-324, 1e30, -1e30, 0.7, 1e-16,
        123456789.123456789, -0.1, 2.0 ** 60, 3.0, 1e200, -1e200]
SMALLDY = [0, 1, 2, 3, -1, 4, -3, 0.5, 1.5, -0.25, 2.75, 6.0]
# integers beyond 2**53 and exact rationals: Python's sum of them is exact, a premature
# conversion to float is not
BIGINT = [2 ** 53 + 1, 1, -2 ** 53, 10 ** 30, -10 ** 30, 3, 2 ** 64, -2 ** 64 + 7, Fraction(1, 10),
          Fraction(-1, 3)]


def draw_number(tape, family):
    if family == "int":
        return tape.choice(INTS, "int")
    if family == "dyadic":
        return tape.choice(DYADIC, "dyadic")
    if family == "wild":
        return tape.choice(WILD, "wild")
    if family == "smalldy":
        return tape.choice(SMALLDY, "smalldy")
    if family == "bigint":
        return tape.choice(BIGINT, "bigint")
    # mixed
    fam = tape.choice(["int", "dyadic", "wild"], "family")
    return draw_number(tape, fam)


def draw_context(tape, serial, keyed=False, scale=False):
    """(kind, context or None): bare / empty / non-empty, fresh objects."""
    kind = tape.weighted([(3, "ctx"), (2, "bare"), (1, "empty")], "ctxkind")
    if keyed and kind != "ctx":
        kind = "ctx" if tape.draw(4, "keyed-ctx") else kind
    if kind == "bare":
        return kind, None
    if kind == "empty":
        return kind, {}
    # (a key whose value is None is not a missing key)
    # (1, 1.0 and True are equal, and are three different keys)
    ctx = {"k": [0, 1, 2, None, 1.0, True][tape.draw(6, "k")], "nest": {"i": serial, "l": [serial]}}
    # equal sub-dictionaries built in different insertion orders
    if serial % 2:
        ctx["unit"] = {"name": "x", "u": "cm"}
    else:
        ctx["unit"] = {"u": "cm", "name": "x"}
    if tape.draw(2, "j"):
        ctx["j"] = [0, 1, None][tape.draw(3, "jv")]
    if scale and tape.draw(3, "scale") == 0:
        ctx["scale"] = 2
    return kind, ctx


def with_ctx(data, ctx):
    if ctx is None:
        return data
    return (data, ctx)


# --------------------------------------------------------------------------
# canonical form of results (for twin comparison and idempotence)

def canon(x, depth=0):
    if depth > 8:
        return "..."
    if isinstance(x, bool) or x is None or isinstance(x, (int, str)):
        return x
    if isinstance(x, float):
        if x != x:
            return ("nan",)
        return x
    if isinstance(x, decimal.Decimal):
        if x.is_finite():
            return ("num", Fraction(x))
        return ("dec", str(x))
    if isinstance(x, lena.structures.histogram):
        # as a HistToGraph(scale=True) or a plot would: ask for the scale (which the histogram
        # computes once and keeps; a histogram that is new has not computed it)
        try:
            sc_ = x.scale()
        except Exception as e:  # noqa: BLE001
            sc_ = ("scale-raises", type(e).__name__)
        return ("histogram", canon(x.edges, depth + 1), canon(x.bins, depth + 1),
                x.n_out_of_range, canon(sc_))
    if isinstance(x, lena.structures.Graph):
        # public interface only: the points property and scale()
        try:
            pts = canon(list(x.points), depth + 1)
        except Exception as e:  # noqa: BLE001
            pts = ("points-raise", type(e).__name__)
        try:
            sc_ = x.scale()
        except Exception:  # noqa: BLE001
            sc_ = None
        return ("Graph", pts, canon(sc_))
    if isinstance(x, tuple):
        return ("t",) + tuple(canon(y, depth + 1) for y in x)
    if isinstance(x, list):
        return ("l",) + tuple(canon(y, depth + 1) for y in x)
    if isinstance(x, dict):
        return ("d",) + tuple(sorted(((repr(k), canon(v, depth + 1)) for k, v in x.items())))
    return ("obj", type(x).__name__, repr(x) if type(x).__repr__ is not object.__repr__ else "")


def num_eq(a, b):
    """numeric equality where int 3, float 3.0 and Decimal 3 are the same number."""
    try:
        return Fraction(a) == Fraction(b)
    except (TypeError, ValueError, OverflowError):
        return a == b


def split_result(r):
    """(data, context) of a result; bare -> (data, None)."""
    if isinstance(r, tuple) and len(r) == 2 and isinstance(r[1], dict) and not hasattr(r, "_fields"):
        return r[0], r[1]
    return r, None


# --------------------------------------------------------------------------
# kinds: configuration, construction, values, reference aggregate

class Kind(object):
    name = "?"
    idempotent = True      # compute twice without a fill in between gives equal results
    has_model = True
    # results are new objects: the driver updates the context of every result in place as soon as
    # it has received it (as downstream lena elements do) and judges the snapshot taken before
    fresh_results = True

    def draw_cfg(self, tape):
        return {}

    def build(self, cfg, fresh):
        raise NotImplementedError

    def draw_data(self, tape, cfg, serial):
        return draw_number(tape, cfg.get("family", "int"))

    def keyed(self, cfg):
        return False

    def check(self, cfg, hist, started, outcome):
        """hist: [(data, ctx snapshot or None, value object)] since the last reset;
        started: no reset so far (start values apply); outcome: ('ok', results) or
        ('raise', exception).  Returns None or (rule, detail)."""
        return None

    def describe(self, cfg):
        return "%s(%s)" % (self.name, ", ".join("%s=%r" % kv for kv in sorted(cfg.items())))


def last_ctx(hist):
    if not hist:
        return {}
    c = hist[-1][1]
    return {} if c is None else c


def expect_ctx_optional(data_ok, rctx, exp_ctx):
    """accumulators of lena.math yield bare data when the context is empty"""
    if exp_ctx:
        return rctx == exp_ctx
    return rctx is None or rctx == {}


def one_result(outcome):
    if outcome[0] != "ok":
        return None, ("exception", "compute raised %r" % (outcome[1],))
    if len(outcome[1]) != 1:
        return None, ("number-of-results", "compute yielded %d results, one is documented: %r"
                      % (len(outcome[1]), summarize(outcome[1])))
    return outcome[1][0], None


def float_sums(start, nums):
    """the results 'Python's sum' may mean: left fold and builtin sum()"""
    fold = start
    for x in nums:
        fold = fold + x
    try:
        py = sum(nums, start)
    except OverflowError:
        py = fold
    return fold, py


def exact_sum(start, nums):
    s = Fraction(start)
    for x in nums:
        s += Fraction(x)
    return s


def to_float(fr):
    try:
        return float(fr)
    except OverflowError:
        return float("inf") if fr > 0 else float("-inf")


class KCount(Kind):
    name = "Count"

    def draw_cfg(self, tape):
        # a name with a dot is one key, not a path; "k" collides with a key of the filled contexts
        return {"name": tape.choice(["count", "n", "cut.passed", "k"], "name"),
                "start": tape.choice([0, 0, 3], "start")}

    def build(self, cfg, fresh):
        return lena.flow.Count(cfg["name"], 0 if fresh else cfg["start"])

    def draw_data(self, tape, cfg, serial):
        return tape.choice([0, 1, "x", 2.5, (1, 2)], "any")

    def check(self, cfg, hist, started, outcome):
        r, err = one_result(outcome)
        if err:
            return err
        n = len(hist) + (cfg["start"] if started else 0)
        data, ctx = split_result(r)
        if ctx is None or data != n:
            return ("value", "Count yielded %r after %d fills (start %d)" % (
                summarize(r), len(hist), cfg["start"] if started else 0))
        exp = copy.deepcopy(last_ctx(hist))
        exp.pop(cfg["name"], None)
        exp[cfg["name"]] = n
        if ctx != exp:
            return ("context", "Count yielded context %r; the last filled context extended by its "
                    "own key is %r" % (summarize(ctx), summarize(exp)))
        return None


class KSum(Kind):
    name = "Sum"

    def draw_cfg(self, tape):
        return {"start": tape.choice([0, 0, 5, 0.5], "start"),
                "family": tape.choice(["int", "dyadic", "mixed", "wild", "bigint"], "family")}

    def build(self, cfg, fresh):
        if fresh:
            return lena.math.Sum()
        return lena.math.Sum(cfg["start"])

    def check(self, cfg, hist, started, outcome):
        r, err = one_result(outcome)
        if err:
            return err
        start = cfg["start"] if started else 0
        nums = [h[0] for h in hist]
        fold, py = float_sums(start, nums)
        data, ctx = split_result(r)
        if not (data == fold or data == py):
            return ("value", "Sum yielded %r for start %r and values %r; left fold %r, sum() %r"
                    % (data, start, nums, fold, py))
        if not expect_ctx_optional(True, ctx, last_ctx(hist)):
            return ("context", "Sum yielded context %r; the last filled context is %r"
                    % (summarize(ctx), summarize(last_ctx(hist))))
        return None


class KDSum(Kind):
    name = "DSum"

    def draw_cfg(self, tape):
        return {"start": tape.choice([0, 0, 0.5, 3], "start"),
                "family": tape.choice(["wild", "mixed", "dyadic"], "family")}

    def build(self, cfg, fresh):
        if fresh:
            return lena.math.DSum()
        return lena.math.DSum(cfg["start"])

    def check(self, cfg, hist, started, outcome):
        r, err = one_result(outcome)
        if err:
            return err
        start = cfg["start"] if started else 0
        nums = [h[0] for h in hist]
        exact = exact_sum(start, nums)
        data, ctx = split_result(r)
        try:
            got = Fraction(data)
        except (TypeError, ValueError, OverflowError):
            return ("value", "DSum yielded %r, not a finite number" % (data,))
        if got != exact:
            return ("value-not-exact", "DSum yielded %r for start %r and values %r; the exact sum is "
                    "%s (difference %.3g)" % (data, start, nums, exact, to_float(got - exact)))
        if not expect_ctx_optional(True, ctx, last_ctx(hist)):
            return ("context", "DSum yielded context %r; the last filled context is %r"
                    % (summarize(ctx), summarize(last_ctx(hist))))
        return None


class KMean(Kind):
    name = "Mean"

    def draw_cfg(self, tape):
        cfg = {"sum": tape.choice(["plain", "Sum", "DSum"], "sumseq"),
               "pass": bool(tape.draw(2, "pass_on_empty")),
               "family": tape.choice(["int", "dyadic", "mixed", "wild", "bigint"], "family")}
        if cfg["sum"] == "DSum" and cfg["family"] == "bigint":
            cfg["family"] = "wild"        # Decimal(Fraction) is not defined
        return cfg

    def build(self, cfg, fresh):
        ss = None
        if cfg["sum"] == "Sum":
            ss = lena.math.Sum()
        elif cfg["sum"] == "DSum":
            ss = lena.math.DSum()
        return lena.math.Mean(sum_seq=ss, pass_on_empty=cfg["pass"])

    def check(self, cfg, hist, started, outcome):
        n = len(hist)
        if n == 0:
            if cfg["pass"]:
                if outcome != ("ok", []):
                    return ("empty", "Mean(pass_on_empty=True) with nothing filled gave %r"
                            % (summarize(outcome),))
                return None
            if outcome[0] != "raise" or not isinstance(outcome[1], lena.core.LenaZeroDivisionError):
                return ("empty", "Mean with nothing filled must raise LenaZeroDivisionError, got %r"
                        % (summarize(outcome),))
            return None
        r, err = one_result(outcome)
        if err:
            return err
        nums = [h[0] for h in hist]
        data, ctx = split_result(r)
        if cfg["sum"] == "DSum":
            cands = [to_float(exact_sum(0, nums)) / float(n)]
        else:
            fold, py = float_sums(0, nums)
            cands = [float(fold) / float(n), float(py) / float(n)]
        if not any(data == c for c in cands):
            return ("value", "Mean yielded %r for values %r; sum/count gives %r" % (data, nums, cands))
        if not expect_ctx_optional(True, ctx, last_ctx(hist)):
            return ("context", "Mean yielded context %r; the last filled context is %r"
                    % (summarize(ctx), summarize(last_ctx(hist))))
        return None


class KVMC(Kind):
    name = "VarianceMeanCount"

    def draw_cfg(self, tape):
        return {"corrected": bool(tape.draw(2, "corrected")), "pass": bool(tape.draw(2, "pass")),
                "family": "smalldy"}

    def build(self, cfg, fresh):
        return lena.math.VarianceMeanCount(corrected=cfg["corrected"], pass_on_empty=cfg["pass"])

    def check(self, cfg, hist, started, outcome):
        n = len(hist)
        zde = lena.core.LenaZeroDivisionError
        if n == 0:
            if cfg["pass"]:
                if outcome != ("ok", []):
                    return ("empty", "VarianceMeanCount(pass_on_empty=True) with nothing filled gave %r"
                            % (summarize(outcome),))
                return None
            if outcome[0] != "raise" or not isinstance(outcome[1], zde):
                return ("empty", "nothing filled: LenaZeroDivisionError is documented, got %r"
                        % (summarize(outcome),))
            return None
        if n == 1 and cfg["corrected"]:
            if outcome[0] != "raise" or not isinstance(outcome[1], zde):
                return ("one-value-corrected", "one value and corrected=True: LenaZeroDivisionError "
                        "is documented, got %r" % (summarize(outcome),))
            return None
        r, err = one_result(outcome)
        if err:
            return err
        nums = [Fraction(h[0]) for h in hist]
        mean = sum(nums) / n
        var = sum(x * x for x in nums) / n - mean * mean
        if cfg["corrected"]:
            var = var * n / (n - 1)
        data, ctx = split_result(r)
        try:
            gvar, gmean, gcount = data.variance, data.mean, data.count
        except AttributeError:
            return ("value", "VarianceMeanCount yielded %r, not a variance_mean_count" % (data,))
        scale = max(1.0, float(sum(x * x for x in nums) / n))
        if gcount != n or abs(gmean - float(mean)) > 1e-9 * max(1.0, abs(float(mean))) \
                or abs(gvar - float(var)) > 1e-9 * scale:
            return ("value", "VarianceMeanCount yielded %r for %r; exact variance %s mean %s count %d"
                    % (tuple(data), [h[0] for h in hist], float(var), float(mean), n))
        if not expect_ctx_optional(True, ctx, last_ctx(hist)):
            return ("context", "VarianceMeanCount yielded context %r; the last filled context is %r"
                    % (summarize(ctx), summarize(last_ctx(hist))))
        return None


class KVectorize(Kind):
    name = "Vectorize"

    def draw_cfg(self, tape):
        inner = tape.choice(["Sum", "DSum", "Mean", "Count", "list", "StoreItems", "mixed", "VMC"], "inner")
        dim = 2 + (tape.draw(2, "dim") if inner != "mixed" else 0)
        if inner not in ("mixed", "VMC") and tape.chance(1, 4, "one-dimensional-vector"):
            dim = 1
        if inner == "VMC":
            # every component is a (deep copy of a) VarianceMeanCount
            return {"inner": inner, "dim": dim, "family": "smalldy"}
        return {"inner": inner, "dim": dim,
                "family": "wild" if inner == "DSum" and tape.draw(2, "w") else
                tape.choice(["int", "dyadic"], "family")}

    def build(self, cfg, fresh):
        inner = cfg["inner"]
        if inner == "Sum":
            return lena.math.Vectorize(lena.math.Sum(), dim=cfg["dim"])
        if inner == "DSum":
            return lena.math.Vectorize(lena.math.DSum(), dim=cfg["dim"])
        if inner == "Mean":
            return lena.math.Vectorize(lena.math.Mean(), dim=cfg["dim"])
        if inner == "Count":
            return lena.math.Vectorize(lena.flow.Count(), dim=cfg["dim"])
        if inner == "VMC":
            return lena.math.Vectorize(lena.math.VarianceMeanCount(corrected=False), dim=cfg["dim"])
        if inner == "mixed":
            # components that yield different numbers of results: the shorter output is padded
            return lena.math.Vectorize([lena.flow.StoreFilled(yield_as_a_group=False), lena.math.Sum()])
        if inner == "StoreItems":
            # the component accumulators yield one result per filled value
            return lena.math.Vectorize(lena.flow.StoreFilled(yield_as_a_group=False), dim=cfg["dim"])
        return lena.math.Vectorize([lena.math.Sum(), lena.math.Mean(pass_on_empty=False), lena.math.DSum()][:cfg["dim"]])

    def draw_data(self, tape, cfg, serial):
        return tuple(draw_number(tape, cfg["family"]) for _ in range(cfg["dim"]))

    def check(self, cfg, hist, started, outcome):
        inner = cfg["inner"]
        n = len(hist)
        dim = cfg["dim"]
        kinds = [inner] * dim if inner != "list" else ["Sum", "Mean", "DSum"][:dim]
        if inner == "mixed":
            if outcome[0] != "ok":
                return ("exception", "compute raised %r" % (outcome[1],))
            res_ = outcome[1]
            fold, py = float_sums(0, [h[0][1] for h in hist])
            if len(res_) != max(n, 1):
                return ("number-of-results", "%d values were filled: the first component yields %d "
                        "results, the second one; %d results came out (the longest output, padded "
                        "with None, is documented)" % (n, n, len(res_)))
            for i, r in enumerate(res_):
                data, ctx = split_result(r)
                exp0 = hist[i][0][0] if i < n else None
                if not isinstance(data, tuple) or len(data) != 2 or data[0] != exp0 \
                        or (i == 0 and (data[1] is None or not (data[1] == fold or data[1] == py))) \
                        or (i > 0 and data[1] is not None):
                    return ("value", "result %d of Vectorize([StoreFilled items, Sum]) is %r after "
                            "filling %r" % (i, summarize(data), [h[0] for h in hist]))
                if not expect_ctx_optional(True, ctx, last_ctx(hist)):
                    return ("context", "result %d of Vectorize came with context %r; the last filled "
                            "context is %r" % (i, summarize(ctx), summarize(last_ctx(hist))))
            return None
        if inner == "StoreItems":
            if outcome[0] != "ok":
                return ("exception", "compute raised %r" % (outcome[1],))
            res_ = outcome[1]
            if len(res_) != n:
                return ("number-of-results", "%d values were filled, %d results came out" % (n, len(res_)))
            for i, r in enumerate(res_):
                data, ctx = split_result(r)
                if data != tuple(hist[i][0]):
                    return ("value", "result %d is %r, the components of the %d-th filled value are %r"
                            % (i, summarize(data), i, hist[i][0]))
                if not expect_ctx_optional(True, ctx, last_ctx(hist)):
                    return ("context", "result %d of Vectorize came with context %r; the last filled "
                            "context is %r" % (i, summarize(ctx), summarize(last_ctx(hist))))
            return None
        if inner == "VMC" and n == 0:
            if outcome[0] != "raise" or not isinstance(outcome[1], lena.core.LenaZeroDivisionError):
                return ("empty", "an empty inner VarianceMeanCount must raise LenaZeroDivisionError, "
                        "got %r" % (summarize(outcome),))
            return None
        if n == 0 and "Mean" in kinds:
            if outcome[0] != "raise" or not isinstance(outcome[1], lena.core.LenaZeroDivisionError):
                return ("empty", "an empty inner Mean must raise LenaZeroDivisionError, got %r"
                        % (summarize(outcome),))
            return None
        r, err = one_result(outcome)
        if err:
            return err
        data, ctx = split_result(r)
        if not isinstance(data, tuple) or len(data) != dim:
            return ("value", "Vectorize yielded %r, not a %d-tuple" % (summarize(data), dim))
        for c in range(dim):
            nums = [h[0][c] for h in hist]
            got = data[c]
            k = kinds[c]
            if k == "Sum":
                fold, py = float_sums(0, nums)
                ok = got == fold or got == py
            elif k == "DSum":
                try:
                    ok = Fraction(got) == exact_sum(0, nums)
                except (TypeError, ValueError):
                    ok = False
            elif k == "Mean":
                fold, py = float_sums(0, nums)
                ok = got == float(fold) / float(n) or got == float(py) / float(n)
            elif k == "VMC":
                fr = [Fraction(x) for x in nums]
                mean = sum(fr) / n
                var = sum(x * x for x in fr) / n - mean * mean
                scale = max(1.0, float(sum(x * x for x in fr) / n))
                try:
                    ok = (got.count == n and abs(got.mean - float(mean)) <= 1e-9 * max(1.0, abs(float(mean)))
                          and abs(got.variance - float(var)) <= 1e-9 * scale)
                except AttributeError:
                    ok = False
            else:
                ok = got == (n, {"count": n})
            if not ok:
                return ("value", "Vectorize component %d (%s) yielded %r for %r" % (c, k, summarize(got), nums))
        if not expect_ctx_optional(True, ctx, last_ctx(hist)):
            return ("context", "Vectorize yielded context %r; the last filled context is %r"
                    % (summarize(ctx), summarize(last_ctx(hist))))
        return None


class KStore(Kind):
    name = "StoreFilled"
    fresh_results = False     # yields the filled values themselves

    def draw_cfg(self, tape):
        return {"group": bool(tape.draw(2, "as-group"))}

    def build(self, cfg, fresh):
        return lena.flow.StoreFilled(yield_as_a_group=cfg["group"])

    def draw_data(self, tape, cfg, serial):
        return tape.choice([0, 1, "x", 2.5, (1, 2), [serial]], "any")

    def check(self, cfg, hist, started, outcome):
        if outcome[0] != "ok":
            return ("exception", "compute raised %r" % (outcome[1],))
        vals = [h[2] for h in hist]
        res = outcome[1]
        if cfg["group"]:
            if len(res) != 1 or not isinstance(res[0], list):
                return ("value", "StoreFilled yielded %r, one list is documented" % (summarize(res),))
            res = res[0]
        if len(res) != len(vals) or any(a is not b for a, b in zip(res, vals)):
            return ("value", "StoreFilled yielded %r; the filled values are %r"
                    % (summarize(res), summarize(vals)))
        return None


class KGroupBy(Kind):
    name = "GroupBy"
    fresh_results = False     # yields the filled values themselves

    def draw_cfg(self, tape):
        return {"by": tape.choice(["default", "k", "kj", "merge-nest", "unit"], "group_by")}

    def keyed(self, cfg):
        return True

    def build(self, cfg, fresh):
        by = cfg["by"]
        if by == "default":
            return lena.flow.GroupBy()
        if by == "k":
            return lena.flow.GroupBy("k")
        if by == "kj":
            return lena.flow.GroupBy(("k", "j"))
        if by == "unit":
            return lena.flow.GroupBy("unit")
        return lena.flow.GroupBy("", merge="nest")

    def draw_data(self, tape, cfg, serial):
        return serial

    def key(self, cfg, ctx):
        ctx = ctx or {}
        by = cfg["by"]
        if by == "default":
            return 0
        if by == "k":
            return repr(ctx.get("k", MISSING))
        if by == "kj":
            return repr((ctx.get("k", MISSING), ctx.get("j", MISSING)))
        if by == "unit":
            u = ctx.get("unit")
            return repr(sorted(u.items())) if isinstance(u, dict) else MISSING
        c = dict(ctx)
        c.pop("nest", None)
        return repr(canon(c))      # insensitive to the insertion order of nested dictionaries

    def check(self, cfg, hist, started, outcome):
        if outcome[0] != "ok":
            return ("exception", "compute raised %r" % (outcome[1],))
        order = []
        groups = {}
        for data, ctx, val in hist:
            k = self.key(cfg, ctx)
            if k not in groups:
                groups[k] = []
                order.append(k)
            groups[k].append(val)
        exp = [groups[k] for k in order]
        res = outcome[1]
        ok = len(res) == len(exp)
        if ok:
            for g, e in zip(res, exp):
                if len(g) != len(e) or any(a is not b for a, b in zip(g, e)):
                    ok = False
        if not ok:
            return ("value", "GroupBy(%s) yielded groups %r; grouping the filled values in order of "
                    "first appearance gives %r" % (cfg["by"], summarize(res), summarize(exp)))
        return None


EDGES1 = [[0, 1, 2, 4], [0.0, 0.5, 1.0], [-2, 0, 5], [-1, 0, 1]]
EDGES2 = [[[0, 1, 2], [0, 2, 4]], [[0, 2], [0, 1, 2, 3]], [[-1, 0, 1], [0, 1, 2, 3]]]


def cell_of(edges, x):
    if x < edges[0] or x >= edges[-1]:
        return None
    for i in range(len(edges) - 1):
        if edges[i] <= x < edges[i + 1]:
            return i
    return None


class KHistogram(Kind):
    name = "Histogram"

    def draw_cfg(self, tape):
        dim = 1 + (tape.draw(3, "dim2") == 2)
        edges = tape.draw(4, "edges") if dim == 1 else tape.draw(3, "edges")
        return {"dim": dim, "edges": edges,
                "bins": tape.choice(["none", "initial", "make_bins"], "bins"),
                "init": tape.choice([0, 0, 2], "initial_value")}

    def edges(self, cfg):
        return copy.deepcopy(EDGES1[cfg["edges"]] if cfg["dim"] == 1 else EDGES2[cfg["edges"]])

    def init_bins(self, cfg, offset):
        e = self.edges(cfg)
        if cfg["dim"] == 1:
            return [offset + i for i in range(len(e) - 1)]
        return [[offset + 10 * i + j for j in range(len(e[1]) - 1)] for i in range(len(e[0]) - 1)]

    def build(self, cfg, fresh):
        e = self.edges(cfg)
        if cfg["bins"] == "none":
            return lena.structures.Histogram(e, initial_value=cfg["init"])
        if cfg["bins"] == "initial":
            return lena.structures.Histogram(e, bins=self.init_bins(cfg, 1), initial_value=cfg["init"])
        return lena.structures.Histogram(e, make_bins=lambda: self.init_bins(cfg, 100),
                                         initial_value=cfg["init"])

    def draw_data(self, tape, cfg, serial):
        pool = [0, 0.5, 1, 1.5, 2, 3.5, 4, -1, 7, 0.25, 2.5,
                # the largest floats below an edge
                math.nextafter(1.0, -math.inf), math.nextafter(2.0, -math.inf),
                math.nextafter(4.0, -math.inf), math.nextafter(5.0, -math.inf), math.nextafter(0.0, -math.inf)]
        if cfg["dim"] == 1:
            return tape.choice(pool, "x")
        return (tape.choice(pool, "x"), tape.choice(pool, "y"))

    def check(self, cfg, hist, started, outcome):
        r, err = one_result(outcome)
        if err:
            return err
        data, ctx = split_result(r)
        if ctx is None or not isinstance(data, lena.structures.histogram):
            return ("value", "Histogram yielded %r, (histogram, context) is documented" % (summarize(r),))
        e = self.edges(cfg)
        if cfg["bins"] == "none":
            bins = self.init_bins(cfg, 0)
            if cfg["dim"] == 1:
                bins = [cfg["init"]] * len(bins)
            else:
                bins = [[cfg["init"]] * len(row) for row in bins]
        elif cfg["bins"] == "initial":
            bins = self.init_bins(cfg, 1)
        else:
            bins = self.init_bins(cfg, 100)
        out = 0
        for x, _, _ in hist:
            if cfg["dim"] == 1:
                i = cell_of(e, x)
                if i is None:
                    out += 1
                else:
                    bins[i] += 1
            else:
                i = cell_of(e[0], x[0])
                j = cell_of(e[1], x[1])
                if i is None or j is None:
                    out += 1
                else:
                    bins[i][j] += 1
        if data.bins != bins or data.edges != e:
            return ("value", "Histogram bins are %r after filling %r; cell by cell counting gives %r"
                    % (data.bins, [h[0] for h in hist], bins))
        if ctx != last_ctx(hist):
            return ("context", "Histogram yielded context %r; the last filled context is %r"
                    % (summarize(ctx), summarize(last_ctx(hist))))
        return None


class KGraph(Kind):
    """deprecated element: the filled points (sorted when sort is set), reset clause"""
    name = "Graph"
    fresh_results = False     # yields itself

    def check(self, cfg, hist, started, outcome):
        r, err = one_result(outcome)
        if err:
            return err
        data, ctx = split_result(r)
        try:
            pts = list(data.points)
        except Exception as e:  # noqa: BLE001
            return ("value", "Graph.points raised %r" % (e,))
        exp = [h[0] for h in hist]
        if cfg["sort"]:
            exp = sorted(exp)
        if pts != exp:
            return ("value", "Graph yielded points %r; the filled points%s are %r"
                    % (pts, " sorted" if cfg["sort"] else "", exp))
        return None

    def draw_cfg(self, tape):
        return {"sort": bool(tape.draw(2, "sort")), "scale": tape.choice([None, None, 2], "scale"),
                "ctxscale": True}

    def build(self, cfg, fresh):
        return lena.structures.Graph(scale=cfg["scale"], sort=cfg["sort"])

    def draw_data(self, tape, cfg, serial):
        return ((tape.draw(5, "x"),), (tape.draw(5, "y"),))


class KFillRequest(Kind):
    """adapters that have a reset method: reset clause only (C16 judges their blocks)"""
    name = "FillRequest"
    has_model = False
    idempotent = False

    def draw_cfg(self, tape):
        return {"wrapper": tape.choice(["FillRequest", "FillRequestSeq", "Zip"], "wrapper"),
                "bufsize": 1 + tape.draw(3, "bufsize"), "reset": bool(tape.draw(2, "reset-flag")),
                "buffer": tape.choice(["input", "output"], "buffer"), "family": "int"}

    def describe(self, cfg):
        return "%s(Sum(), bufsize=%d, reset=%s, buffer_%s=True)" % (
            cfg["wrapper"], cfg["bufsize"], cfg["reset"], cfg["buffer"])

    def build(self, cfg, fresh):
        kw = {"bufsize": cfg["bufsize"], "reset": cfg["reset"]}
        kw["buffer_" + cfg["buffer"]] = True
        if cfg["wrapper"] == "FillRequest":
            return lena.core.FillRequest(lena.math.Sum(), **kw)
        if cfg["wrapper"] == "FillRequestSeq":
            return lena.core.FillRequestSeq(lena.core.FillRequest(lena.math.Sum(), **kw),
                                            bufsize=1, reset=False, buffer_input=True)
        return lena.flow.Zip([lena.core.FillRequest(lena.math.Sum(), **kw),
                              lena.core.FillRequest(lena.flow.Count(), **kw)])


KINDS = [(3, KSum()), (3, KDSum()), (3, KCount()), (3, KMean()), (3, KVMC()), (3, KVectorize()),
         (2, KStore()), (2, KGroupBy()), (4, KHistogram()), (1, KGraph()), (1, KFillRequest())]


# --------------------------------------------------------------------------

def gen_scenario(tape):
    sc = Spec()
    sc.kind = tape.weighted(KINDS, "kind")
    sc.cfg = sc.kind.draw_cfg(tape)
    sc.ops = []
    serial = 0
    # "end" is a drawn operation (first choice), so that deleting draws shortens the history
    while len(sc.ops) < 25:
        op = tape.weighted([(1, "end"), (7, "fill"), (4, "compute"), (1, "partial"), (2, "reset")], "op")
        if op == "end":
            if sc.ops or tape.draw(4, "really-empty") == 0:
                break
            continue
        if op == "fill":
            data = sc.kind.draw_data(tape, sc.cfg, serial)
            ckind, ctx = draw_context(tape, serial, keyed=sc.kind.keyed(sc.cfg),
                                      scale=bool(sc.cfg.get("ctxscale")))
            sc.ops.append(("fill", data, ckind, ctx))
            serial += 1
        else:
            sc.ops.append((op,))
    return sc


def take(r, touch, originals=None):
    """what the driver keeps of a result: with *touch*, a snapshot taken at receipt, after which the
    result's context is updated in place (as the next lena element would do)"""
    if originals is not None:
        originals.append(r)
    if not touch:
        return r
    snap = copy.deepcopy(r)
    data, ctx = split_result(r)
    if ctx is not None:
        ctx["downstream"] = {"touched": True}
    if isinstance(data, lena.structures.histogram):
        # ... and asks the histogram it was given for its scale (which the histogram then keeps)
        try:
            data.scale()
        except Exception:  # noqa: BLE001
            pass
    return snap


def do_compute(el, partial, touch=False, originals=None):
    """('ok', results) or ('raise', exc); results are consumed one by one"""
    method = getattr(el, "compute", None) or getattr(el, "request")
    try:
        g = iter(method())
        out = []
        if partial:
            try:
                out.append(take(next(g), touch, originals))
            except StopIteration:
                pass
            if hasattr(g, "close"):
                g.close()
            return ("ok", out)
        for r in g:
            out.append(take(r, touch, originals))
        return ("ok", out)
    except Exception as e:  # noqa: BLE001
        return ("raise", e)


def snapshot(outcome):
    if outcome[0] == "ok":
        return ("ok", canon(outcome[1]))
    return ("raise", type(outcome[1]).__name__)


def run(tape):
    res = RunResult()
    log = res.log
    sc = gen_scenario(tape)
    kind, cfg = sc.kind, sc.cfg
    cls = kind.name if kind.name != "FillRequest" else cfg["wrapper"]
    res.say("%s; history of %d operations" % (kind.describe(cfg), len(sc.ops)))
    log.ev("cfg", "kind", kind.describe(cfg))
    el = kind.build(cfg, fresh=False)
    twin = None            # fresh element fed the suffix after the last reset
    hist = []              # (data, ctx snapshot, value object) since the last reset
    started = True
    nresets = 0
    fills_total = 0
    kept = []              # (result objects, their canonical form) of earlier computes
    last_snap = None       # snapshot of the last compute with no fill / reset since
    seen_ctx = False
    if any(cfg.get(k) for k in ("start",)):
        res.probe("start-value-nonzero")
    if kind.name == "Vectorize":
        res.probe("vectorize")
    if kind.name == "Histogram" and cfg["bins"] == "initial":
        res.probe("histogram-initial-bins")
    if kind.name == "Histogram" and cfg["bins"] == "make_bins":
        res.probe("histogram-make_bins")

    def unexpected(where, e):
        if exception_origin(e) != "lena":
            raise e
        res.viol("C09:%s:%s:unexpected-exception:%s@%s" % (cls, where, type(e).__name__,
                                                          exception_site(e)), repr(e)[:300])

    stable = kind.name in ("Sum", "DSum", "Mean", "VarianceMeanCount", "Vectorize", "Count", "StoreFilled")

    def earlier_results_intact(after):
        # what was yielded earlier belongs to the consumer: no later fill, compute or reset of the
        # element may change it (StoreFilled documents that it yields a copy of its group for this
        # reason; Histogram, Graph and GroupBy yield live objects and are not judged here)
        for objs, snap in kept:
            if canon(objs) != snap:
                res.viol("C09:%s:earlier-result-changed-by-%s" % (cls, after),
                         "a result yielded earlier was %r and is %r after a later %s"
                         % (summarize(snap), summarize(canon(objs)), after))
                return False
        return True

    for i, op in enumerate(sc.ops):
        if kept and i and not earlier_results_intact(sc.ops[i - 1][0]):
            return res
        if op[0] == "fill":
            _, data, ckind, ctx = op
            ctx_el = copy.deepcopy(ctx)
            val = with_ctx(copy.deepcopy(data), ctx_el)
            log.ev("op", "fill", cls, summarize(data), ckind)
            res.say("fill(%r)" % (summarize(with_ctx(data, ctx)),))
            if seen_ctx and ckind != "ctx":
                res.probe("last-value-bare-after-context")
                res.fault("context-drops-to-empty")
            if ckind == "ctx":
                seen_ctx = True
                if "scale" in ctx and kind.name == "Graph":
                    res.probe("graph-scale-from-context")
            if kind.name == "Histogram":
                e = kind.edges(cfg)
                xs = [data] if cfg["dim"] == 1 else list(data)
                es = [e] if cfg["dim"] == 1 else e
                if any(cell_of(ee, x) is None for ee, x in zip(es, xs)):
                    res.probe("histogram-out-of-range")
            if isinstance(data, float) and abs(data) >= 1e200:
                res.fault("cancelling-huge-floats")
            try:
                if kind.name == "Histogram":
                    # a fill is a search in the edges: it must come back
                    with StepBudget(20000):
                        el.fill(val)
                else:
                    el.fill(val)
            except StepBudgetExceeded:
                res.viol("C09:Histogram:fill:hang", "fill(%r) did not return within 20000 lines (edges %r)"
                         % (data, kind.edges(cfg)))
                return res
            except Exception as e:  # noqa: BLE001
                unexpected("fill", e)
                return res
            if twin is not None:
                try:
                    twin.fill(with_ctx(copy.deepcopy(data), copy.deepcopy(ctx)))
                except Exception as e:  # noqa: BLE001
                    unexpected("fill-fresh", e)
                    return res
                if kind.name == "DSum":
                    res.probe("dsum-after-reset")
            if kind.name == "DSum" and getattr(getattr(el, "_dcontext", None), "prec", 28) > 28:
                res.probe("dsum-precision-raised")
            hist.append((data, copy.deepcopy(ctx), val))
            fills_total += 1
            last_snap = None
            if nresets:
                res.nontrivial = True
        elif op[0] in ("compute", "partial"):
            partial = op[0] == "partial"
            log.ev("op", op[0], cls)
            if partial:
                res.fault("partial-compute-abandoned")
            if not hist:
                res.fault("compute-on-empty")
            originals = [] if stable else None
            outcome = do_compute(el, partial, touch=kind.fresh_results, originals=originals)
            if outcome[0] == "raise" and exception_origin(outcome[1]) != "lena":
                raise outcome[1]
            snap = snapshot(outcome)
            if stable and outcome[0] == "ok" and not partial and len(kept) < 6:
                # StoreFilled's group list is the result; its items are the filled values themselves
                # the objects the element handed out (after the driver's own downstream update)
                kept.append((originals, canon(originals)))
            log.ev("result", cls, summarize(snap))
            res.say("%s() -> %s" % ("compute" if not partial else "compute [one result taken]",
                                    summarize(snap)))
            if len(hist) >= 2:
                res.nontrivial = True
            if kind.name == "GroupBy" and outcome[0] == "ok" and len(outcome[1]) >= 2:
                res.probe("groupby-several-groups")
            if outcome[0] == "raise" and isinstance(outcome[1], lena.core.LenaException):
                res.probe("compute-raises-documented-error")
            # 1. the documented aggregate
            if kind.has_model and not partial:
                bad = kind.check(cfg, hist, started, outcome)
                if bad is not None:
                    res.viol("C09:%s:aggregate%s:%s" % (cls, ":after-reset" if nresets else "", bad[0]),
                             bad[1])
                    return res
            elif outcome[0] == "raise" and not isinstance(outcome[1], lena.core.LenaException):
                unexpected("compute", outcome[1])
                return res
            # 2. the fresh twin
            if twin is not None:
                tout = do_compute(twin, partial, touch=kind.fresh_results)
                if tout[0] == "raise" and exception_origin(tout[1]) != "lena":
                    raise tout[1]
                tsnap = snapshot(tout)
                if nresets and hist:
                    res.probe("reset-then-fill-then-compute")
                if tsnap != snap:
                    res.viol("C09:%s:reset-vs-fresh:results-differ" % cls,
                             "after reset() and %d later fills compute gave %r; a newly constructed "
                             "element with the same fills gives %r" % (len(hist), summarize(snap),
                                                                       summarize(tsnap)))
                    return res
            # 3. idempotence
            if kind.idempotent and not partial:
                if last_snap is not None:
                    res.fault("double-compute")
                    if last_snap != snap:
                        res.viol("C09:%s:compute-twice:results-differ" % cls,
                                 "two compute() calls without a fill in between gave %r and then %r"
                                 % (summarize(last_snap), summarize(snap)))
                        return res
                last_snap = snap
        else:
            log.ev("op", "reset", cls)
            res.say("reset()")
            res.fault("reset-mid-history")
            try:
                el.reset()
            except Exception as e:  # noqa: BLE001
                if exception_origin(e) != "lena":
                    raise
                res.viol("C09:%s:reset:raises-%s" % (cls, type(e).__name__), repr(e)[:300])
                return res
            nresets += 1
            if nresets == 2:
                res.probe("two-resets")
            if kind.name == "FillRequest":
                res.probe("fillrequest-reset")
            started = False
            hist = []
            last_snap = None
            twin = kind.build(cfg, fresh=True)
    if kept and sc.ops:
        earlier_results_intact(sc.ops[-1][0])
    return res
