"""C02 - evaluation is lazy: demand-driven consumption, bounded buffering.

Pipelines of streaming elements with a tap on every element boundary,
finite and infinite simulated sources, consumer schedules (take k, stop
by close / drop), one optional upstream fault.  The oracle is model-free
about *values*: it uses only event order, provenance serials and the
look-ahead each element documents.  See DESIGN.md section 3, C02.
"""
import gc
import operator

import lena.core
import lena.flow
import lena.flow.print_ as print_mod
import lena.context
import lena.output
import lena.variables

from ..kernel import RunResult, Boom, PullBudgetExceeded
from ..seams.flow import COPIES, Tok, SimSource, key_of, bump, tok_of, Pred, PredFailing

PROPERTY = "C02"
LEVEL = "exploration"
N_RUNS = {"quick": 250000, "thorough": 12000000}
RULE = ("each run draws a pipeline of 1-6 streaming elements (probe callables, Variable, Filter, "
        "Slice with every sign pattern and step, Count, RunIf, Print, Context, UpdateContext, "
        "MakeFilename, Split of 1-3 such branches with bufsize in {1,2,3,5,None}) in Sequence or "
        "Source form, a tap on every element boundary (also inside Split branches), a finite "
        "(0-40) or infinite source, a consumer schedule (all / take k then close or drop) and "
        "optionally one upstream fault (pull p raises); non-trivial = at least 2 elements or a "
        "Split / Slice / Count and at least one value pulled; distinct = distinct abstracted "
        "event-kind sequences (pull / tap / call / out pattern with tap names)."
        " Since the seeded rounds also: the flow comes from a callable, a lazily read iterable"
        " (with or without a length) or a one-shot iterator as first element of a Source, or is"
        " given to Sequence.run as an iterable with a length; Filters whose Selector takes"
        " exceptions of its predicate for False; Splits with copy_buf off; deep copies of input"
        " values are counted like the originals (one copy of a block at a time)."
        " Also: inputs and element boundaries that answer __length_hint__, bufsize 10,"
        " lena.flow.Chain over a one-shot iterator, long skips in front of a negative stop.")
REAL = ["lena.core.Sequence", "lena.core.Source", "lena.core.Split", "lena.core.Run (adapters)",
        "lena.flow.Filter", "lena.flow.Selector", "lena.flow.Slice", "lena.flow.Count",
        "lena.flow.RunIf", "lena.flow.Print", "lena.context.Context", "lena.context.UpdateContext",
        "lena.output.MakeFilename", "lena.variables.Variable", "copy.deepcopy", "itertools"]
STUB = ["SimSource (finite / infinite input, pull log, pull budget, weak references to inputs)",
        "Tap (pass-through generator on every boundary)", "probe callables and predicates",
        "consumer", "print (captured through lena.flow.print_.print)"]
ASSUMPTIONS = [
    "CPython reference counting (gc disabled during a run) is the clock for object liveness",
    "the look-ahead / hold table of the check: 0 for per-value elements, 1 for Count.run, |stop| "
    "for a negative-stop Slice, one block for Split(bufsize), whole flow for negative start and "
    "bufsize=None; Split may keep the processed block alive while it reads the next (2*bufsize)",
    "taps are three-line pass-through generators and are lazy by construction",
]
FAULT_KINDS = ["consumer-stop-close", "consumer-stop-drop", "upstream-raise", "infinite-source"]
EXPECTED_PROBES = ["empty-negative-slice", "negative-start-positive-stop-long-flow", "split-multi-block", "negative-stop-slice", "negative-start-slice", "count-lookahead",
                   "infinite-source-bounded-by-slice", "stop-mid-block", "liveness-armed",
                   "fault-before-first-output", "islice-drain-at-end", "nested-split"]

CALLISH = ("call", "variable", "print", "context", "updatecontext", "makefilename", "mark")


class _TapIter(object):
    """the tap as an iterator object that passes the length hint of its input on"""

    def __init__(self, tap, flow, inv):
        self.tap = tap
        self.flow = iter(flow)
        self.inv = inv
        self.done = False

    def __iter__(self):
        return self

    def __next__(self):
        try:
            v = next(self.flow)
        except StopIteration:
            if not self.done:
                self.done = True
                self.tap.log.ev("tap-end", self.tap.name, self.inv)
            raise
        t = tok_of(v)
        self.tap.log.ev("tap", self.tap.name, self.inv, t.serial, t.tag)
        return v

    def __length_hint__(self):
        return operator.length_hint(self.flow)

    def close(self):
        # as a suspended generator does when it is closed: let go of the input
        self.flow = iter(())


class Tap(object):
    hinted = False

    def __init__(self, log, name):
        self.log = log
        self.name = name
        self.inv = 0

    def run(self, flow):
        if self.hinted:
            inv = self.inv
            self.inv += 1
            return _TapIter(self, flow, inv)
        return self._run(flow)

    def _run(self, flow):
        inv = self.inv
        self.inv += 1
        ev = self.log.ev
        name = self.name
        for v in flow:
            t = tok_of(v)
            ev("tap", name, inv, t.serial, t.tag)
            yield v
        ev("tap-end", name, inv)


class _OldPred(object):
    """Logged predicate on the provenance serial: mask over serial % 8."""

    def __init__(self, log, name, mask):
        self.log = log
        self.name = name
        self.mask = mask
        self.__name__ = "pred_" + name

    def ok(self, serial):
        return bool((self.mask >> (serial % 8)) & 1)

    def __call__(self, value):
        t = tok_of(value)
        self.log.ev("sel", self.name, t.serial)
        return self.ok(t.serial)


class Node(object):
    def __init__(self, kind, name, **params):
        self.kind = kind
        self.name = name
        self.p = params
        self.branches = []   # for split: list of lists of Nodes
        self.tap_in = None   # names
        self.tap_out = None

    def describe(self):
        k = self.kind
        if k == "slice":
            return "Slice%r" % (self.p["args"],)
        if k == "filter":
            return "Filter(%smask=%s)" % ("Selector that takes errors for False, " if self.p.get("noraise") else "",
                                          format(self.p["mask"], "08b"))
        if k == "runif":
            return "RunIf(mask=%s, %d calls)" % (format(self.p["mask"], "08b"), self.p["ninner"])
        if k == "split":
            return "Split([%s], bufsize=%s)" % (
                " | ".join(", ".join(n.describe() for n in br) for br in self.branches),
                str(self.p["bufsize"]) + ("" if self.p.get("copy_buf", True) else ", copy_buf=False"))
        return k


SLICE_PATTERNS = ["stop", "start-stop", "start-stop-step", "start-none", "neg-stop",
                  "start-neg-stop", "start-neg-stop-step", "neg-start", "neg-start-neg-stop",
                  "neg-start-pos-stop"]


def gen_slice(tape, infinite):
    # on an infinite source only slices that terminate when evaluated lazily
    pats = SLICE_PATTERNS if not infinite else (SLICE_PATTERNS[:7] + SLICE_PATTERNS[8:])
    pat = tape.choice(pats, "slice-pattern")
    a = tape.draw(4, "slice-a")
    b = tape.draw(6, "slice-b")
    s = 1 + tape.draw(3, "slice-step")
    m = 1 + tape.draw(3, "slice-m")
    if pat == "stop":
        return (b,)
    if pat == "start-stop":
        return (a, a + b)
    if pat == "start-stop-step":
        return (a, a + b, s)
    if pat == "start-none":
        return (a, None, s)
    if pat == "neg-stop":
        return (-m,)
    if pat in ("start-neg-stop", "start-neg-stop-step") and tape.chance(1, 3, "long-skip"):
        # many values are skipped first: none of them may be kept while the slice runs
        a = 10 + tape.draw(8, "slice-a-long")
    if pat == "start-neg-stop":
        return (a, -m)
    if pat == "start-neg-stop-step":
        return (a, -m, s)
    if pat == "neg-start":
        return (-m, None)
    if pat == "neg-start-neg-stop":
        if infinite or tape.chance(1, 3, "empty-negative-slice"):
            # stop <= start: nothing can be selected, whatever the flow
            return (-m, -(m + a), s)
        return (-(m + a), -m if a else None)
    return (-m, b)


def gen_mask(tape, infinite):
    if infinite:
        # dense masks: at most one rejected residue, so compositions keep accepting
        r = tape.draw(9, "mask-reject")
        return 0xFF if r == 8 else (0xFF & ~(1 << r))
    return tape.choice([0xFF, 0xFE, 0x55, 0xAA, 0x0F, 0xEF, 0x01, 0x00], "mask")


def gen_nodes(tape, prefix, n, infinite, depth, counter):
    kinds = [(5, "call"), (3, "filter"), (4, "slice"), (2, "count"), (2, "variable"),
             (2, "runif"), (1, "print"), (1, "context"), (1, "updatecontext"),
             (1, "makefilename")]
    if depth < 2:
        kinds.append((4, "split"))
    nodes = []
    for i in range(n):
        kind = tape.weighted(kinds, "kind")
        name = "%se%d" % (prefix, i)
        if kind == "slice":
            node = Node(kind, name, args=gen_slice(tape, infinite))
        elif kind == "filter":
            node = Node(kind, name, mask=gen_mask(tape, infinite),
                        noraise=tape.chance(1, 3, "selector-takes-errors-for-false"))
        elif kind == "runif":
            node = Node(kind, name, mask=gen_mask(tape, False), ninner=tape.draw(3, "runif-inner"))
        elif kind == "split":
            bufs = [2, 1, 3, 5] if infinite else [2, 1, 3, 5, None]
            bufs = bufs + [10]
            node = Node(kind, name, bufsize=tape.choice(bufs, "bufsize"),
                        copy_buf=not tape.chance(1, 4, "copy-buf-off"))
            nb = 1 + tape.draw(3, "nbranches")
            if tape.chance(1, 10, "empty-split"):
                nb = 0
            for b in range(nb):
                counter[0] += 1
                bprefix = "%s.b%d." % (name, b)
                mark = Node("mark", bprefix + "mark", tag=(counter[0], b))
                inner = gen_nodes(tape, bprefix, tape.draw(3, "branch-len"), infinite,
                                  depth + 1, counter)
                node.branches.append([mark] + inner)
        else:
            node = Node(kind, name)
        nodes.append(node)
    return nodes


# ---------------------------------------------------------------------------
# build real elements

def build(nodes, log, prefix_tap, printed):
    """Return list of elements with taps interleaved; sets tap names."""
    els = []
    tap_in = prefix_tap
    for node in nodes:
        node.tap_in = tap_in
        node.tap_out = node.name + ".out"
        els.append(make_element(node, log, printed))
        els.append(Tap(log, node.tap_out))
        tap_in = node.tap_out
    return els


class CallableWithFillCompute(object):
    def __init__(self, fn):
        self._fn = fn
        self._filled = []

    def __call__(self, value):
        return self._fn(value)

    def fill(self, value):
        self._filled.append(value)

    def compute(self):
        for v in self._filled:
            yield self._fn(v)


def make_element(node, log, printed):
    k = node.kind
    ev = log.ev
    if k == "call":
        def call(value, name=node.name):
            ev("call", name, tok_of(value).serial)
            return bump(value)
        if sum(map(ord, node.name)) % 3 == 0:
            # one callable in three is an object that also has fill and compute (and no run):
            # in a Sequence it is a callable, value by value
            return CallableWithFillCompute(call)
        return call
    if k == "mark":
        def mark(value, name=node.name, tag=node.p["tag"]):
            t = tok_of(value)
            ev("call", name, t.serial)
            return bump(value, t.tag + (tag,))
        return mark
    if k == "variable":
        def getter(data, name=node.name):
            ev("call", name, data.serial)
            return data.derive()
        return lena.variables.Variable("var_" + node.name.replace(".", "_"), getter)
    if k == "filter":
        if node.p.get("noraise"):
            node.pred = PredFailing(log, node.name, node.p["mask"])
            return lena.flow.Filter(lena.flow.Selector(node.pred, raise_on_error=False))
        node.pred = Pred(log, node.name, node.p["mask"])
        return lena.flow.Filter(node.pred)
    if k == "slice":
        return lena.flow.Slice(*node.p["args"])
    if k == "count":
        return lena.flow.Count("cnt_" + node.name.replace(".", "_"))
    if k == "runif":
        node.pred = Pred(log, node.name, node.p["mask"])
        inner = []
        for j in range(node.p["ninner"]):
            def call(value, name="%s.i%d" % (node.name, j)):
                ev("call", name, tok_of(value).serial)
                return bump(value)
            inner.append(call)
        return lena.flow.RunIf(node.pred, *inner)
    if k == "print":
        return lena.flow.Print(transform=lambda v, name=node.name: "%s:%d" % (name, tok_of(v).serial))
    if k == "context":
        return lena.context.Context()
    if k == "updatecontext":
        return lena.context.UpdateContext("upd." + node.name.replace(".", "_"), 1)
    if k == "makefilename":
        return lena.output.MakeFilename(filename="f_" + node.name.replace(".", "_"))
    if k == "split":
        seqs = []
        for b, br in enumerate(node.branches):
            tin = "%s.b%d.in" % (node.name, b)
            els = [Tap(log, tin)] + build(br, log, tin, printed)
            # an explicit Sequence: a tuple containing Count (which also has fill and
            # compute) would be taken for a FillComputeSeq
            seqs.append(lena.core.Sequence(*els))
        if not node.p.get("copy_buf", True):
            return lena.core.Split(seqs, bufsize=node.p["bufsize"], copy_buf=False)
        return lena.core.Split(seqs, bufsize=node.p["bufsize"])
    raise AssertionError(k)


# ---------------------------------------------------------------------------
# what the documentation lets each element consume ahead / hold

def slice_selected(args, positions_upto):
    """Indices p < positions_upto that Slice(args) with non-negative start selects,
    ignoring stop."""
    s = slice(*args)
    start = s.start or 0
    step = s.step or 1
    return range(start, positions_upto, step)


def owed(node, consumed, accepted=0):
    """Number of results that the values consumed so far already determine and
    that must therefore have been handed on before the element pulls again.
    *accepted*: running count of consumed values the Filter's predicate accepts."""
    n = len(consumed)
    k = node.kind
    if k in CALLISH or k == "runif":
        return n
    if k == "filter":
        return accepted
    if k == "count":
        return max(n - 1, 0)
    if k == "slice":
        s = slice(*node.p["args"])
        start, stop, step = s.start, s.stop, s.step or 1
        if start is not None and start < 0:
            return 0
        start = start or 0
        if stop is None:
            lim = n
        elif stop >= 0:
            lim = min(stop, n)
        else:
            lim = n + stop      # positions p with p < n - |stop|
        return len(range(start, max(lim, start), step)) if lim > start else 0
    if k == "split":
        B = node.p["bufsize"]
        if B is None or not node.branches:
            return n if not node.branches else 0
        pure = sum(1 for br in node.branches if all(x.kind in CALLISH for x in br))
        return (n // B) * B * pure
    raise AssertionError(k)


def lookahead_ok(node, pos, countA):
    """Invariant 2: may the value whose determining input sits at position
    *pos* pass the output tap when countA inputs have been consumed?"""
    k = node.kind
    if k in CALLISH or k in ("runif", "filter"):
        return countA <= pos + 1
    if k == "count":
        return countA <= pos + 2
    if k == "slice":
        s = slice(*node.p["args"])
        if s.start is not None and s.start < 0:
            return True
        if s.stop is not None and s.stop < 0:
            return countA <= pos + 1 + (-s.stop)
        return countA <= pos + 1
    if k == "split":
        B = node.p["bufsize"]
        if not node.branches:
            return countA <= pos + 1
        if B is None:
            return True
        return countA <= ((pos // B) + 1) * B
    raise AssertionError(k)


def hold(node):
    k = node.kind
    if k == "count":
        return 1
    if k == "slice":
        s = slice(*node.p["args"])
        h = 0
        if s.start is not None and s.start < 0:
            h = max(h, -s.start)
        if s.stop is not None and s.stop < 0:
            h = max(h, -s.stop)
        return h
    if k == "split":
        B = node.p["bufsize"]
        if B is None:
            return None
        return 2 * B
    return 0


def walk(nodes):
    for n in nodes:
        yield n
        for br in n.branches:
            for x in walk(br):
                yield x


def elem_label(node):
    k = node.kind
    if k == "slice":
        s = slice(*node.p["args"])
        neg_start = s.start is not None and s.start < 0
        neg_stop = s.stop is not None and s.stop < 0
        if neg_start:
            return "Slice:negative-start"
        if neg_stop:
            return "Slice:negative-stop"
        return "Slice:non-negative"
    if k == "split":
        return "Split:bufsize=%s" % ("None" if node.p["bufsize"] is None else "n")
    if k in ("call", "mark"):
        return "Run(callable)"
    return {"variable": "Variable", "filter": "Filter", "count": "Count.run", "runif": "RunIf",
            "print": "Print", "context": "Context", "updatecontext": "UpdateContext",
            "makefilename": "MakeFilename"}[k]


# ---------------------------------------------------------------------------
# scenario

class Scenario(object):
    pass


class LazyIterable(object):
    """a non-callable iterable whose iteration pulls from the simulated source"""

    def __init__(self, src):
        self._src = src

    def __iter__(self):
        return self._src


class SizedIterable(LazyIterable):
    """a data set that knows its length and is read lazily"""

    def __init__(self, src, n):
        LazyIterable.__init__(self, src)
        self._n = n

    def __len__(self):
        return self._n


class PlainIterator(object):
    """a non-callable one-shot iterator over the simulated source"""

    def __init__(self, src):
        self._src = src

    def __iter__(self):
        return self

    def __next__(self):
        return next(self._src)


def gen_scenario(tape):
    sc = Scenario()
    sc.infinite = tape.chance(1, 4, "infinite")
    # source: the flow comes from a callable first element; source-iterable: from an iterable
    # (non-callable) first element
    sc.form = tape.choice(["sequence", "source", "source-iterable", "source-iterator",
                           "sequence-sized-iterable", "source-sized-iterable", "source-chain"], "form")
    # the input (and the taps on the element boundaries) can tell how many values remain
    sc.hinted = tape.chance(1, 4, "input-has-a-length-hint")
    if sc.infinite and sc.form.endswith("sized-iterable"):
        sc.form = sc.form.replace("-sized-iterable", "") if sc.form.startswith("sequence") else "source-iterable"
    sc.with_context = bool(tape.draw(2, "with-context"))
    n = 1 + tape.draw(6, "nelems")
    counter = [0]
    sc.nodes = gen_nodes(tape, "", n, sc.infinite, 0, counter)
    kinds = set(x.kind for x in walk(sc.nodes))
    if kinds & set(["context", "updatecontext", "makefilename"]):
        sc.with_context = True
    # liveness: armed when nothing documented to hold the whole flow is present
    holds = [hold(x) for x in walk(sc.nodes)]
    sc.live_bound = None
    if None not in holds:
        sc.live_bound = sum(holds) + sum(1 for _ in walk(sc.nodes)) + 2
    sc.armed = sc.live_bound is not None and tape.chance(1, 3, "arm-liveness")
    # deep copies: a Split works on one copy of its block at a time
    splits = [x for x in walk(sc.nodes) if x.kind == "split" and x.branches]
    sc.copy_bound = None
    if not splits:
        sc.copy_bound = 2
    elif len(splits) == 1 and splits[0].p["bufsize"] is not None:
        sc.copy_bound = splits[0].p["bufsize"] + 2
    if sc.infinite:
        sc.n = None
    elif sc.armed:
        sc.n = sc.live_bound + 3 + tape.draw(10, "flow-extra")
    else:
        sc.n = tape.draw(13, "flowlen")
        if tape.chance(1, 5, "longer-flow"):
            sc.n += tape.draw(28, "flowlen2")
    # consumer
    bounded = any(x.kind == "slice" and all(a is None or a >= 0 for a in x.p["args"])
                  and slice(*x.p["args"]).stop is not None for x in sc.nodes)
    sched = tape.weighted([(3, "all"), (3, "take")], "sched")
    if sc.infinite and not bounded:
        sched = "take"
    sc.sched = sched
    sc.k = tape.draw(12, "take-k", sweep=True) if sched == "take" else None
    sc.how = tape.choice(["close", "drop"], "how")
    sc.fault_at = None
    if tape.chance(1, 5, "fault"):
        sc.fault_at = tape.draw(10, "fault-at", sweep=True)
    return sc


def make_value(sc, i):
    t = Tok(i)
    if sc.with_context:
        return (t, {"idx": i})
    return t


class Outcome(object):
    pass


def execute(sc, res, fault_at, log):
    """Build and drive the pipeline once; returns an Outcome."""
    o = Outcome()
    o.log = log
    printed = []

    def fake_print(*args, **kwargs):
        log.ev("print", "".join(str(a) for a in args))
    print_mod.print = fake_print
    budget = None
    if sc.infinite:
        budget = 100 * ((sc.k or 0) + 10) + 200
    src = SimSource(log, "src", sc.n, lambda i: make_value(sc, i), raise_at=fault_at,
                    budget=budget, keep_weak=True)
    o.src = src
    o.exc = None
    o.taken = 0
    o.exhausted = False
    o.max_alive = 0
    o.max_copies = 0
    COPIES.clear()
    o.alive_viol = None
    o.stopped_at = None
    gen = None
    # liveness is sampled at every pull (before the new value exists) and after
    # every result handed to the consumer
    if sc.armed and fault_at is None:
        orig_make = src.make

        def make_and_measure(i):
            a = src.alive()
            if a > o.max_alive:
                o.max_alive = a
            c = len(COPIES)
            if c > o.max_copies:
                o.max_copies = c
            return orig_make(i)
        src.make = make_and_measure
    src.hinted = bool(getattr(sc, "hinted", False))
    Tap.hinted = src.hinted
    try:
        els = [Tap(log, "in")] + build(sc.nodes, log, "in", printed)
        log.ev("build")
        if sc.form == "sequence":
            gen = lena.core.Sequence(*els).run(src)
        elif sc.form == "source-iterable":
            gen = lena.core.Source(LazyIterable(src), *els)()
        elif sc.form == "source-chain":
            # lena.flow.Chain over a one-shot iterator as the first element of a Source
            gen = lena.core.Source(lena.flow.Chain(PlainIterator(src)), *els)()
        elif sc.form == "sequence-sized-iterable":
            gen = lena.core.Sequence(*els).run(SizedIterable(src, sc.n))
        elif sc.form == "source-sized-iterable":
            gen = lena.core.Source(SizedIterable(src, sc.n), *els)()
        elif sc.form == "source-iterator":
            # a one-shot iterator object (not callable) as the first element
            gen = lena.core.Source(PlainIterator(src), *els)()
        else:
            gen = lena.core.Source(src, *els)()
        log.ev("run")
        want = sc.k if sc.sched == "take" else None
        while want is None or o.taken < want:
            log.ev("next")
            try:
                v = next(gen)
            except StopIteration:
                o.exhausted = True
                break
            t = tok_of(v)
            log.ev("out", o.taken, t.serial, t.tag)
            o.taken += 1
            v = t = None
            if sc.armed and fault_at is None:
                a = src.alive()
                if a > o.max_alive:
                    o.max_alive = a
                c = len(COPIES)
                if c > o.max_copies:
                    o.max_copies = c
        if not o.exhausted:
            o.stopped_at = len(log)
            if sc.how == "close":
                log.ev("stop", "close")
                gen.close()
            else:
                log.ev("stop", "drop")
            gen = None
            o.after_stop = len(log)
            o.alive_after_stop = src.alive()
    except Boom as e:
        o.exc = "Boom"
        e.__traceback__ = None
    except PullBudgetExceeded:
        o.exc = "PullBudgetExceeded"
    except Exception as e:  # noqa: BLE001
        if not _from_lena(e):
            raise
        o.exc = type(e).__name__
        o.exc_detail = repr(e)[:200]
        e.__traceback__ = None
    gen = None
    return o


def _from_lena(e):
    from ..kernel import exception_origin
    return exception_origin(e) == "lena"


def run(tape):
    res = RunResult()
    sc = gen_scenario(tape)
    res.say("%s(%s) over %s source of %s values%s" % (
        "Sequence" if sc.form == "sequence" else "Source",
        ", ".join(n.describe() for n in sc.nodes),
        "an infinite" if sc.infinite else "a finite",
        "bare" if not sc.with_context else "(data, context)",
        "" if sc.infinite else " (n=%d)" % sc.n))
    res.say("consumer: %s%s; fault: %s; liveness %s" % (
        "takes all" if sc.sched == "all" else "takes %d then %s" % (sc.k, sc.how), "",
        "none" if sc.fault_at is None else "pull %d raises" % sc.fault_at,
        "armed (bound %s)" % sc.live_bound if sc.armed else "off"))
    was_gc = gc.isenabled()
    gc.disable()
    try:
        o = execute(sc, res, sc.fault_at, res.log)
        judge(sc, o, res)
        if sc.fault_at is not None and not res.violations:
            # invariant 6: the faulty run is the fault-free twin up to the faulty pull
            from ..kernel import Log
            twin_log = Log()
            twin = execute(sc, res, None, twin_log)
            compare_with_twin(sc, o, twin, res)
    finally:
        if was_gc:
            gc.enable()
    return res


def judge(sc, o, res):
    log = o.log
    events = log.events
    # ---- probes -----------------------------------------------------------
    kinds = [x.kind for x in walk(sc.nodes)]
    if len(kinds) >= 2 or set(kinds) & set(["split", "slice", "count"]):
        if o.src.pulls:
            res.nontrivial = True
    if sc.infinite:
        res.fault("infinite-source")
    if o.stopped_at is not None:
        res.fault("consumer-stop-" + sc.how)
    if o.exc == "Boom":
        res.fault("upstream-raise")
        if o.taken == 0:
            res.probe("fault-before-first-output")
    if sc.armed:
        res.probe("liveness-armed")
    for x in walk(sc.nodes):
        if x.kind == "split" and x.branches:
            if any(y.kind == "split" for br in x.branches for y in br):
                res.probe("nested-split")
        if x.kind == "slice":
            s = slice(*x.p["args"])
            if s.start is not None and s.start < 0:
                res.probe("negative-start-slice")
                if s.stop is not None and s.stop < 0 and s.stop <= s.start:
                    res.probe("empty-negative-slice")
                if s.stop is not None and s.stop >= 0 and (sc.n is None or sc.n > s.stop - s.start + 1):
                    res.probe("negative-start-positive-stop-long-flow")
            elif s.stop is not None and s.stop < 0:
                res.probe("negative-stop-slice")
            elif s.stop is not None and o.exhausted and (sc.n is None or sc.n > s.stop) \
                    and (s.start or 0) < s.stop:
                # the consumer asked for one more result than the slice allows: that last next()
                # may legitimately drain the input up to `stop` (see the Reading in DESIGN.md)
                res.probe("islice-drain-at-end")
        if x.kind == "count":
            res.probe("count-lookahead")

    # ---- invariant 1: no work before demand ------------------------------------
    # events between "build" and the first "next" must be only the markers
    first_next = None
    for i, e in enumerate(events):
        if e[0] == "next":
            first_next = i
            break
    upto = first_next if first_next is not None else len(events)
    for e in events[:upto]:
        if e[0] not in ("build", "run", "stop"):
            res.viol("C02:pipeline:work-before-demand:%s" % _culprit_of_event(sc, e),
                     "event %r happened before the consumer asked for the first result" % (e,))
            return

    # ---- per element: invariants 2, 2', 3 ------------------------------------------
    # index events per tap name and invocation
    for node in walk(sc.nodes):
        v = check_element(sc, node, events)
        if v:
            res.viol(v[0], v[1])
            return

    # split probes
    for node in walk(sc.nodes):
        if node.kind == "split" and node.p["bufsize"] is not None and node.branches:
            cnt = sum(1 for e in events if e[0] == "tap" and e[1] == node.tap_in and e[2] == 0)
            if cnt > node.p["bufsize"]:
                res.probe("split-multi-block")
                if o.stopped_at is not None and cnt % node.p["bufsize"]:
                    res.probe("stop-mid-block")
    if sc.infinite and o.exc is None and sc.sched == "all":
        res.probe("infinite-source-bounded-by-slice")

    # ---- infinite source: termination ---------------------------------------------
    if o.exc == "PullBudgetExceeded":
        # no element was caught reading ahead: the program legitimately diverges
        res.probe("legit-divergence-on-infinite-source")
        return
    if o.exc not in (None, "Boom"):
        res.viol("C02:pipeline:unexpected-exception:%s" % o.exc, getattr(o, "exc_detail", ""))
        return

    # ---- invariant 4: stopping is final -------------------------------------------
    if o.stopped_at is not None:
        extra = events[o.stopped_at + 1:]
        if extra:
            res.viol("C02:pipeline:work-after-stop:%s" % _culprit_of_event(sc, extra[0]),
                     "after the consumer stopped (%s) these events still happened: %r"
                     % (sc.how, extra[:3]))
            return
        if sc.fault_at is None and o.alive_after_stop:
            res.viol("C02:pipeline:inputs-alive-after-stop",
                     "%d original input objects are still alive after the consumer %s the "
                     "pipeline" % (o.alive_after_stop, "closed" if sc.how == "close" else "dropped"))
            return

    # ---- invariant 5: bounded liveness ----------------------------------------------
    if sc.armed and sc.fault_at is None:
        if o.max_alive > sc.live_bound:
            res.viol("C02:pipeline:unbounded-liveness:%s" % _liveness_culprit(sc),
                     "%d original input objects were alive at once; the documented holds allow %d "
                     "(flow length %s)" % (o.max_alive, sc.live_bound, sc.n))
            return
        if sc.copy_bound is not None and o.max_copies > sc.copy_bound:
            res.viol("C02:Split:holds-more-than-one-copy-of-its-block",
                     "%d deep copies of input values were alive at once; a Split works on one copy of "
                     "its block of %d values at a time" % (o.max_copies, sc.copy_bound - 2))
            return
        res.probe("liveness-checked-within-bound")


def _culprit_of_event(sc, e):
    name = e[1] if len(e) > 1 and isinstance(e[1], str) else "?"
    if e[0] == "pull":
        return "source-pulled"
    base = name.split(".out")[0].split(".in")[0]
    for node in walk(sc.nodes):
        if node.name == base or (node.kind == "runif" and base.startswith(node.name + ".i")):
            return elem_label(node)
    if e[0] == "print":
        return "Print"
    return e[0]


def _liveness_culprit(sc):
    # the first element that is documented to hold something, else the pipeline
    for node in walk(sc.nodes):
        if hold(node):
            return elem_label(node)
    return "pipeline"


def check_element(sc, node, events):
    A, B = node.tap_in, node.tap_out
    label = elem_label(node)
    # per invocation state
    st = {}
    s = slice(*node.p["args"]) if node.kind == "slice" else None
    nonneg_stop = (s is not None and s.stop is not None and s.stop >= 0
                   and (s.start is None or s.start >= 0))
    # negative start: the result is known to be empty without reading (stop <= start < 0),
    # or as soon as the flow is seen to be longer than stop - start (start < 0 <= stop;
    # one value of look-ahead is allowed for noticing that)
    pull_cap = None
    if s is not None and s.start is not None and s.start < 0 and s.stop is not None:
        if s.stop < 0 and s.stop <= s.start:
            pull_cap = 0
        elif s.stop >= 0:
            pull_cap = s.stop - s.start + 1
    for e in events:
        if e[0] != "tap":
            continue
        name = e[1]
        if name != A and name != B:
            continue
        inv = e[2]
        key = (e[3], e[4])
        state = st.get(inv)
        if state is None:
            state = st[inv] = {"consumed": [], "pos": {}, "nB": 0, "acc": 0}
        if name == A:
            cons = state["consumed"]
            # invariant 2': before pulling again, everything already determined is out
            need = owed(node, cons, state["acc"])
            if state["nB"] < need:
                return ("C02:%s:reads-ahead" % label,
                        "%s (%s) pulled input #%d while only %d of the %d results determined by "
                        "the %d inputs it had were handed downstream"
                        % (node.name, node.describe(), len(cons), state["nB"], need, len(cons)))
            state["pos"][key] = len(cons)
            cons.append(key)
            if node.kind == "filter" and node.pred.ok(key[0]):
                state["acc"] += 1
            # invariant 3: bounded demand
            if nonneg_stop and len(cons) > s.stop:
                return ("C02:%s:pulls-beyond-stop" % label,
                        "%s (%s) pulled %d values although stop=%d"
                        % (node.name, node.describe(), len(cons), s.stop))
            if pull_cap is not None and len(cons) > pull_cap:
                return ("C02:%s:pulls-although-result-is-determined" % label,
                        "%s (%s) pulled %d values; after %d its (empty) result is determined"
                        % (node.name, node.describe(), len(cons), pull_cap))
        else:
            state["nB"] += 1
            p = state["pos"].get(key)
            if p is None and node.kind == "split":
                tag = key[1]
                for ln in range(len(tag) - 1, -1, -1):
                    p = state["pos"].get((key[0], tag[:ln]))
                    if p is not None:
                        break
            if p is None:
                continue
            if not lookahead_ok(node, p, len(state["consumed"])):
                return ("C02:%s:reads-ahead" % label,
                        "%s (%s): the result for input #%d passed downstream when %d inputs had "
                        "already been pulled" % (node.name, node.describe(), p,
                                                 len(state["consumed"])))
            if nonneg_stop and s.stop is not None:
                pass
    # islice drains up to stop at the end: probe only
    return None


def compare_with_twin(sc, o, twin, res):
    fe = o.log.events
    te = twin.log.events
    # index of the faulty pull in the twin
    cut = None
    for i, e in enumerate(te):
        if e[0] == "pull" and e[2] == sc.fault_at:
            cut = i
            break
    if cut is None:
        # the twin never pulls that far: the faulty run must be the twin
        if fe != te or o.exc is not None:
            res.viol("C02:pipeline:fault:triggered-although-not-demanded",
                     "pull %d is never demanded by this consumer, yet the run differs from the "
                     "fault-free one (exception %s)" % (sc.fault_at, o.exc))
        return
    if fe[:cut] != te[:cut]:
        res.viol("C02:pipeline:fault:diverges-before-faulty-pull",
                 "the run with pull %d raising differs from the fault-free run before that pull"
                 % sc.fault_at)
        return
    if len(fe) <= cut or fe[cut][0] != "raise":
        res.viol("C02:pipeline:fault:diverges-at-faulty-pull", "event %r" % (fe[cut:cut + 1],))
        return
    if o.exc != "Boom":
        res.beyond["upstream-exception-did-not-reach-the-consumer"] = 1
