"""C18 - Cache replays exactly the stored flow and never serves a truncated one.

Histories of runs of pipelines with one or two Cache elements on a
simulated disk; consumer stops, element exceptions, drop_cache,
recompute, hoisting by alter_sequence; reference model with sets of
allowed stored flows.  See DESIGN.md section 3, C18.
"""
import copy
import gc
import itertools
import sys

import lena.core
import lena.flow
import lena.flow.cache as cache_mod
import lena.meta

from ..kernel import RunResult, Boom, summarize, HarnessError
from ..seams.fs import SimFS, SimOS, SimGlob, SimTempfile, ProcessCrash
from ..seams.flow import SimSource, ProbeCall, ProbeRun, ProbeFC

PROPERTY = "C18"
LEVEL = "fault_enumeration"
SWEEP = True
N_RUNS = {"quick": 300000, "thorough": 2000000}
RULE = ("each run draws a pipeline (Sequence or Source form, 1-2 Cache elements, 0-2 probe "
        "elements before/between/after, optional fill/compute accumulator upstream, plain / "
        "sub-directory / formatted cache file name, pickle protocol 0-5) and a history of 1-5 "
        "operations (complete run, consumer stop after k by close/drop, element or source "
        "raising at value k, drop_cache, recompute, hoisting by Cache.alter_sequence or "
        "lena.core.alter_sequence) executed on a simulated disk; every run's values are stamped "
        "with the run number; non-trivial = the history contains an interrupted run or a "
        "replay; thorough additionally sweeps every stop / raise position. distinct = distinct "
        "abstracted event-kind sequences."
        " Since the seeded rounds also: single-block Split form, re-used pipeline objects (also"
        " two objects alternating on the same files), consumers that keep the suspended generator"
        " and later close it or come back for the rest of the flow, a source that re-uses one"
        " context object, values that hold one object several times, an element behind the cache"
        " that updates contexts in place, read errors (EIO) at a drawn read, a full disk (ENOSPC)"
        " when the buffered data goes out at close, and process crashes with torn writes (beyond"
        " the quantifier: explored, not judged)."
        " Also: the Source obtained from alter_sequence is kept and called again later, values of"
        " many builtin types (sets, ranges, complex numbers, byte arrays), cache names so long"
        " that the temporary name cannot be created (ENAMETOOLONG)."
        " Two-object histories may put each object into a simulated process of its own (own pid,"
        " own copy of the module-level counters): a dump suspended in one process while the other"
        " one runs, completes, and the first is then closed or resumed. Flows that hold bare None"
        " values.")
REAL = ["lena.flow.Cache", "lena.core.Sequence", "lena.core.Source", "lena.core.SourceEl",
        "lena.core.Run", "lena.core.alter_sequence", "lena.meta.SetContext", "pickle"]
STUB = ["SimFS/SimOS (disk, os, open)", "SimSource (input flow)", "ProbeCall/ProbeRun/ProbeFC "
        "(elements around the cache)", "consumer", "reference model of stored flows"]
ASSUMPTIONS = [
    "disk model is Python-level (open/os): flush/close make writes durable, rename is atomic",
    "elements around the Cache are 1:1 lazy probes, so a cache's input is exhausted iff the "
    "consumer pulls to StopIteration without a fault",
    "an interrupted dump run over an existing cache may leave either the old complete cache or "
    "no cache (both satisfy the statement)",
    "process crash (torn unflushed bytes) is explored but reported only under beyond_quantifier",
    "Split decides about hoisting a filled Cache into a Source when it is constructed; histories "
    "that drop the cache behind an already constructed Split object are not generated",
]
FAULT_KINDS = ["write-error-ENAMETOOLONG", "write-error-ENOSPC-at-close", "read-error-EIO", "consumer-stop-close", "consumer-stop-drop", "consumer-stop-hold", "raise-downstream",
               "raise-upstream-source", "raise-upstream-element", "drop_cache",
               "recompute", "process-crash"]
EXPECTED_PROBES = ["bare-None-reaches-the-cache", "process-switch", "run-while-another-process-is-suspended-in-a-dump",
                   "held-run-of-the-other-process-released", "values-of-many-builtin-types", "kept-hoisted-source-called-again", "hoisted-source-fails-loudly-without-its-cache", "held-run-finished-after-later-runs", "values-hold-one-object-twice", "write-error-surfaced-loudly", "held-generator-released-before-a-later-run", "other-object-ran-in-between", "downstream-updates-in-place", "source-reuses-one-context-object", "same-object-reused", "split-form-replay", "read-error-surfaced-loudly", "replay-run", "replay-after-interrupted-run", "stop-at-exact-length",
                   "two-caches-inner-replay", "hoisted-to-source", "empty-flow-cached",
                   "interrupted-recompute-over-existing-cache", "accumulator-upstream-of-replay"]

_TIER = ["quick"]


def set_tier(t):
    _TIER[0] = t


REPEAT = [False]   # set per history: values hold the same string object several times
EXOTIC = [False]   # set per history: values hold sets, ranges, complex numbers, byte arrays
NONES = [False]    # set per history: the second and the fourth value of every flow are a bare None


def value(r, i, with_context):
    if NONES[0] and i in (1, 3):
        return None
    data = ("v", r, i)
    if EXOTIC[0]:
        # builtin types that older pickle protocols store by reference to their Python-2 names
        data = data + (frozenset([i, -1]), set([i]), range(i + 1), complex(i, 1), bytearray(b"ab"))
    if REPEAT[0]:
        # one string object referred to from several places of the value (as the name of a plot is)
        s = "plot_%d_%d" % (r, i)
        if with_context:
            return (data, {"run": r, "idx": {"i": i}, "name": s, "output": {"filename": s, "alias": [s, s]}})
        return data + (s, [s, s])
    if with_context:
        return (data, {"run": r, "idx": {"i": i}})
    return data


def find_ctx(v):
    """the first context dictionary inside a (possibly wrapped) value"""
    if isinstance(v, tuple):
        if len(v) == 2 and isinstance(v[1], dict):
            return v[1]
        for x in v:
            c = find_ctx(x)
            if c is not None:
                return c
    return None


class MutPost(object):
    """downstream element that counts its visits in the context of the value, in place"""

    def __call__(self, value):
        ctx = find_ctx(value)
        if ctx is not None:
            ctx["hits"] = ctx.get("hits", 0) + 1
        return value


def mutated(v):
    v = copy.deepcopy(v)
    ctx = find_ctx(v)
    if ctx is not None:
        ctx["hits"] = ctx.get("hits", 0) + 1
    return v


def install(fs):
    cache_mod.os = SimOS(fs)
    cache_mod.open = fs.open
    if hasattr(cache_mod, "glob"):
        # not imported by lena today; a Cache that looks around with glob sees the simulated tree
        cache_mod.glob = SimGlob(fs)
    if hasattr(cache_mod, "tempfile"):
        # the same for a Cache that makes its temporary file with the tempfile module
        cache_mod.tempfile = SimTempfile(fs, cache_mod.os)
    # process-global counters of the module (used for unique temporary file names) start afresh
    # for every simulated history, whatever they are called: a run is a function of its tape only
    for name, val in list(vars(cache_mod).items()):
        if isinstance(val, itertools.count):
            setattr(cache_mod, name, itertools.count())


class Procs(object):
    """Simulated process table.  Every pipeline object of a two-object history may live in a
    process of its own: its own process id and its own copy of the module globals of
    lena.flow.cache that are counters (what a forked or newly started interpreter has).  The
    simulator decides which process runs; it switches before any code of a pipeline object is
    entered (start, next, close, drop_cache).  With one process this is a no-op."""

    def __init__(self, enabled):
        self.enabled = enabled
        self.cur = 0
        self.saved = {}
        self.switches = 0

    def switch(self, obj):
        if not self.enabled or obj == self.cur:
            return False
        mine = {}
        for name, val in list(vars(cache_mod).items()):
            if isinstance(val, itertools.count):
                mine[name] = val
        self.saved[self.cur] = mine
        theirs = self.saved.get(obj)
        for name in mine:
            setattr(cache_mod, name, theirs[name] if theirs and name in theirs else itertools.count())
        self.cur = obj
        cache_mod.os.pid = 4242 + 1000 * obj
        self.switches += 1
        return True


class Op(object):
    pass


def gen_scenario(tape):
    sc = Op()
    sc.with_context = bool(tape.draw(2, "context"))
    # the source re-uses one context dictionary for every value and updates it in place
    sc.shared_ctx = sc.with_context and tape.chance(1, 3, "source-reuses-one-context-object")
    sc.form = tape.weighted([(3, "sequence"), (3, "source"), (2, "split")], "form")
    if sc.form == "split":
        # Split buffers the block before any branch runs: with an aliased input flow
        # every buffered value shows the last state, whatever the Cache does
        sc.shared_ctx = False
    # the same pipeline object (same Cache elements) is used for every run of the history
    sc.reuse = tape.chance(1, 4, "reuse-objects")
    sc.ncaches = tape.weighted([(3, 1), (2, 2)], "ncaches")
    sc.npre = tape.draw(3, "npre")
    sc.pre_kinds = [tape.choice(["call", "run"], "prekind") for _ in range(sc.npre)]
    sc.fc = tape.chance(1, 6, "fc-upstream") and not sc.reuse
    if sc.fc:
        sc.shared_ctx = False     # an accumulator stores the (aliased) values it is filled with
    sc.bare = bool(tape.draw(2, "bare-cache-in-split"))
    sc.nmid = tape.draw(2, "nmid") if sc.ncaches == 2 else 0
    sc.npost = tape.draw(3, "npost")
    sc.post_kinds = [tape.choice(["call", "run"], "postkind") for _ in range(sc.npost)]
    sc.fname_kind = [tape.weighted([(10, "plain"), (10, "dir"), (10, "formatted"), (1, "long")], "fname")
                     for _ in range(sc.ncaches)]
    sc.protocol = tape.choice([2, 0, 1, 3, 4, 5], "protocol")
    sc.method = tape.choice(["cPickle", "pickle"], "method")
    sc.nest = tape.chance(1, 5, "nest")
    # a downstream element directly behind the last cache that updates the context of the value
    # in place: what the cache stores is the flow as it PASSED the cache
    sc.post_mut = (sc.with_context and not getattr(sc, "shared_ctx", False) and not sc.fc
                   and tape.chance(1, 4, "downstream-updates-in-place"))
    # values that refer to one object from several places (pickle memoises such objects)
    sc.repeat = (not getattr(sc, "shared_ctx", False)) and tape.chance(1, 3, "values-hold-one-object-twice")
    sc.exotic = (not getattr(sc, "shared_ctx", False)) and tape.chance(1, 4, "values-of-many-builtin-types")
    # bare None values in the flow (a legitimate, picklable value; the elements in front of the
    # cache wrap it, so it reaches the cache bare only in pipelines that start with the cache)
    sc.nones = (not getattr(sc, "shared_ctx", False)) and tape.chance(1, 4 if sc.npre == 0 else 12,
                                                                     "none-values")
    # a second pipeline object on the same cache files (another process, another notebook cell)
    sc.two = sc.reuse and sc.form != "split" and tape.chance(1, 2, "two-objects")
    # ... each of them in an operating-system process of its own (own pid, own module globals)
    sc.procs = sc.two and tape.chance(1, 2, "two-processes")
    nops = 1 + tape.draw(5, "nops")
    sc.ops = []
    flags_of = {0: [False] * sc.ncaches, 1: [False] * sc.ncaches}
    have_of = {0: False, 1: False}
    for _ in range(nops):
        op = Op()
        op.obj = tape.draw(2, "which-object") if sc.two else 0
        cur_flags = flags_of[op.obj]
        have_object = have_of[op.obj]
        op.kind = tape.weighted([(5, "complete"), (4, "stop"), (2, "raise-down"),
                                 (2, "raise-up"), (1, "drop")], "op")
        op.n = tape.draw(7, "flowlen")
        op.recompute = [tape.chance(1, 6, "recompute") for _ in range(sc.ncaches)]
        op.hoist = tape.weighted([(4, "none"), (2, "cache"), (1, "core")], "hoist")
        # generators that an earlier consumer stopped and kept are closed before this operation
        # the Source that an earlier run got from alter_sequence was kept and is called again
        after_drop = bool(sc.ops) and sc.ops[-1].kind == "drop"
        op.rerun_hoisted = (sc.ncaches == 1 and op.kind != "drop"
                            and tape.chance(1, 2 if after_drop else 8, "kept-hoisted-source-called-again"))
        op.release = tape.chance(1, 3, "release-held-generators")
        # ... or the consumer comes back and takes the rest of its flow
        op.release_how = tape.choice(["close", "finish"], "release-how") if op.release else "close"
        op.rebuild = True
        if sc.reuse:
            # now and then the object is built anew (a new process); in between it is re-used
            # and keeps the recompute flags it was built with.  drop_cache never builds a
            # new object when one exists.
            if op.kind == "drop":
                op.rebuild = False
                if sc.form == "split":
                    # Split decides about hoisting a filled Cache when it is constructed;
                    # dropping the cache behind an already built Split is not generated
                    have_object = False
            else:
                op.rebuild = tape.chance(1, 3, "rebuild") or not have_object
            if op.rebuild:
                cur_flags = list(op.recompute)
            else:
                op.recompute = list(cur_flags)
            if op.kind != "drop":
                have_object = True
        flags_of[op.obj] = cur_flags
        have_of[op.obj] = have_object
        if sc.form == "split":
            op.hoist = "none"
        op.k = 0
        op.how = "close"
        op.target = None
        if op.kind == "stop":
            op.k = tape.draw(op.n + 2, "stop-k", sweep=True)
            # hold: the consumer stops but keeps the suspended generator (released at the end
            # of the history)
            op.how = tape.choice(["close", "drop", "hold"], "how")
        elif op.kind == "raise-down":
            op.k = tape.draw(max(op.n, 1), "raise-k", sweep=True)
            # which downstream element raises; none available -> consumer-side stop
            cands = ["post%d" % i for i in range(sc.npost)] + ["mid%d" % i for i in range(sc.nmid)]
            if cands:
                op.target = tape.choice(cands, "raise-target")
            else:
                op.kind = "stop"
                op.how = "drop"
        elif op.kind == "raise-up":
            op.k = tape.draw(max(op.n, 1), "raise-k", sweep=True)
            cands = ["src"] + ["pre%d" % i for i in range(sc.npre)]
            op.target = tape.choice(cands, "raise-target")
        elif op.kind == "drop":
            op.target = tape.draw(sc.ncaches, "drop-which")
        op.crash = None
        if op.kind in ("complete", "stop") and tape.chance(1, 12, "process-crash"):
            # beyond the quantifier: the process dies at the j-th disk operation
            op.crash = (1 + tape.draw(12, "crash-at"), tape.draw(4, "tear"))
        op.eio = None
        if op.kind != "drop" and not op.crash and tape.chance(1, 10, "eio"):
            op.eio = 1 + tape.draw(8, "eio-at", sweep=True)
        # the disk is full when buffered data of a dumping run goes out (at close)
        op.enospc = None
        if op.kind in ("complete", "stop") and not op.crash and not op.eio and tape.chance(1, 12, "enospc"):
            op.enospc = 1 + tape.draw(2, "enospc-at-flush")
        sc.ops.append(op)
    return sc


FNAMES = {
    ("plain", 0): "c1.pkl", ("plain", 1): "c2.pkl",
    ("dir", 0): "cachedir/c1.pkl", ("dir", 1): "cachedir/sub/c2.pkl",
    ("formatted", 0): "{{tag}}_c1.pkl", ("formatted", 1): "{{tag}}_c2.pkl",
    # names that are just short enough for the file system; a longer temporary name is not
    ("long", 0): "L" * 246 + ".pkl", ("long", 1): "M" * 246 + ".pkl",
}


class Pipeline(object):
    """One pipeline object (a new process in real life, unless the scenario
    re-uses the same object for every run of the history)."""

    def __init__(self, sc, op, log, r):
        self.sc = sc
        self.log = log
        self.pre = [self._mk(sc.pre_kinds[i], "pre%d" % i) for i in range(sc.npre)]
        self.fc = ProbeFC(log, "fc", stamp=("v", r, -1)) if sc.fc else None
        self.mid = [self._mk("call", "mid%d" % i) for i in range(sc.nmid)]
        self.post = [self._mk(sc.post_kinds[i], "post%d" % i) for i in range(sc.npost)]
        self.caches = [
            lena.flow.Cache(FNAMES[(sc.fname_kind[c], c)], recompute=op.recompute[c],
                            method=sc.method, protocol=sc.protocol)
            for c in range(sc.ncaches)
        ]
        self.src = None
        self.configure(op, r)
        els = []
        if "formatted" in sc.fname_kind:
            els.append(lena.meta.SetContext("tag", "T"))
        pre = list(self.pre)
        if sc.nest and pre:
            els.append(lena.core.Sequence(*pre))
        else:
            els.extend(pre)
        if self.fc is not None:
            els.append(self.fc)
        els.append(self.caches[0])
        els.extend(self.mid)
        if sc.ncaches == 2:
            els.append(self.caches[1])
        if getattr(sc, "post_mut", False):
            els.append(MutPost())
        els.extend(self.post)
        if sc.form == "sequence":
            self.seq = lena.core.Sequence(*els)
        elif sc.form == "source":
            self.seq = lena.core.Source(self.current_source, *els)
        else:
            if len(els) == 1 and sc.bare:
                branch = els[0]
            else:
                branch = lena.core.Sequence(*els)
            self.seq = lena.core.Split([branch], bufsize=None)
        self.form = sc.form

    def _mk(self, kind, name):
        if kind == "call":
            return ProbeCall(self.log, name)
        return ProbeRun(self.log, name)

    def current_source(self):
        return self.src

    def configure(self, op, r):
        """Prepare for run r: a new input flow, the fault plan, zeroed counters."""
        sc = self.sc
        make = lambda i: value(r, i, sc.with_context)
        if getattr(sc, "shared_ctx", False):
            shared = {"run": r, "idx": {"i": -1}}

            def make(i, shared=shared):
                shared["idx"]["i"] = i
                return (("v", r, i), shared)
        self.src = SimSource(self.log, "src", op.n, make,
                             raise_at=op.k if (op.kind == "raise-up" and op.target == "src") else None)
        for p in self.pre + self.mid + self.post:
            p.raise_at = op.k if (op.kind in ("raise-up", "raise-down")
                                  and op.target == p.name) else None
            p.calls = 0
            p.seen = 0
        if self.fc is not None:
            self.fc.nfills = 0
            self.fc.computes = 0

    def start(self, hoist):
        """Return (generator, hoisted?)."""
        seq = self.seq
        hoisted = False
        if self.form == "split":
            return seq.run(self.src), False
        if hoist == "cache":
            seq = lena.flow.Cache.alter_sequence(seq)
        elif hoist == "core":
            seq = lena.core.alter_sequence(seq)
        if isinstance(seq, lena.core.Source):
            hoisted = seq is not self.seq
            if hoisted:
                self.hoisted_seq = seq
            return seq(), hoisted
        return seq.run(self.src), hoisted

    def upstream_activity(self, cache_index):
        """How much the elements upstream of cache *cache_index* worked."""
        # a Split reads its block from the source before it runs any branch
        n = self.src.attempts if self.form != "split" else 0
        for p in self.pre:
            n += getattr(p, "calls", 0) + getattr(p, "seen", 0)
        if self.fc is not None:
            n += self.fc.nfills + self.fc.computes
        if cache_index >= 1:
            for p in self.mid:
                n += p.calls
        return n


# ---------------------------------------------------------------------------
# reference model

def apply_probe(name, flow):
    return [(name, v) for v in flow]


def model_run(sc, op, r, combo):
    """Expected behaviour of run r under the assumption that the caches
    hold *combo* (None or a tuple of values each).

    Returns dict(out, exc, exhausted, replay_from, dumped, complete)."""
    modes = []
    for c in range(sc.ncaches):
        modes.append("replay" if (combo[c] is not None and not op.recompute[c]) else "dump")
    last = None
    for c in range(sc.ncaches):
        if modes[c] == "replay":
            last = c
    fault = None  # (stage name, k)
    if op.kind in ("raise-up", "raise-down"):
        fault = (op.target, op.k)
    fired = None
    dumped = {}
    # stages after the starting point
    stages = []
    if sc.form == "split" and fault and fault[0] == "src" and fault[1] < op.n:
        # Split reads the whole block before any branch runs
        fired = ("pre-output", 0)
    if last is None:
        flow = [value(r, i, sc.with_context) for i in range(op.n)]
        if fault and fault[0] == "src" and fault[1] < op.n and fired is None:
            fired = ("pre-output", 0) if sc.fc else ("at", fault[1])
        stages += [("el", "pre%d" % i) for i in range(sc.npre)]
        if sc.fc:
            stages.append(("fc", "fc"))
        stages.append(("cache", 0))
    else:
        flow = list(combo[last])
    if last is None or last == 0:
        stages += [("el", "mid%d" % i) for i in range(sc.nmid)]
        if sc.ncaches == 2:
            stages.append(("cache", 1))
    if getattr(sc, "post_mut", False):
        stages.append(("mut", "mut"))
    stages += [("el", "post%d" % i) for i in range(sc.npost)]
    before_fc = bool(sc.fc) and last is None
    for kind, name in stages:
        if kind == "el":
            if fault and fault[0] == name and fault[1] < len(flow) and fired is None:
                fired = ("pre-output", 0) if before_fc else ("at", fault[1])
            flow = apply_probe(name, flow)
        elif kind == "fc":
            flow = [("fc", "fc", 0, ("v", r, -1), tuple(flow))]
            before_fc = False
        elif kind == "mut":
            flow = [mutated(v) for v in flow]
        else:
            dumped[name] = tuple(flow)
    full = flow
    # what the consumer sees
    if op.kind == "stop":
        want = op.k
    else:
        want = len(full) + 1   # pulls until StopIteration
    exc = None
    exhausted = False
    if fired is not None:
        limit = 0 if fired[0] == "pre-output" else fired[1]
        if want > limit:
            out = full[:limit]
            exc = "Boom"
        else:
            out = full[:want]
    else:
        out = full[:want]
        exhausted = want > len(full)
    complete = exhausted and exc is None
    return {"out": out, "exc": exc, "exhausted": exhausted, "replay_from": last,
            "dumped": dumped, "complete": complete, "modes": modes, "full": full}


# ---------------------------------------------------------------------------
# executor

def run(tape):
    res = RunResult()
    log = res.log
    sc = gen_scenario(tape)
    fs = SimFS(log)
    install(fs)
    REPEAT[0] = bool(getattr(sc, "repeat", False))
    EXOTIC[0] = bool(getattr(sc, "exotic", False))
    NONES[0] = bool(getattr(sc, "nones", False))
    if NONES[0] and sc.npre == 0 and not sc.fc:
        res.probe("bare-None-reaches-the-cache")
    if EXOTIC[0]:
        res.probe("values-of-many-builtin-types")
    if REPEAT[0]:
        res.probe("values-hold-one-object-twice")
    # an injected write error that surfaces while an abandoned generator is finalised cannot
    # propagate (CPython reports it as unraisable): it goes to the event log, not to stderr
    old_unraisable = sys.unraisablehook
    sys.unraisablehook = lambda u: log.ev("unraisable", type(u.exc_value).__name__)
    res.say("pipeline: form=%s caches=%s pre=%s fc_upstream=%s mid=%d post=%s nest=%s context=%s "
            "protocol=%d" % (sc.form, [FNAMES[(sc.fname_kind[c], c)] for c in range(sc.ncaches)],
                             sc.pre_kinds, sc.fc, sc.nmid, sc.post_kinds, sc.nest,
                             sc.with_context, sc.protocol))
    allowed = [[None] for _ in range(sc.ncaches)]
    shared = {}
    procs = shared["procs"] = Procs(bool(getattr(sc, "procs", False)))
    if procs.enabled:
        res.say("the two pipeline objects live in two processes (own pid, own module globals)")
    if sc.reuse:
        res.say("pipeline objects are re-used between runs unless a run says 'new object'")
    if getattr(sc, "post_mut", False):
        res.say("an element directly behind the last cache updates the context of every value in place")
        res.probe("downstream-updates-in-place")
    if getattr(sc, "shared_ctx", False):
        res.say("the source re-uses one context dictionary for all values and updates it in place")
        res.probe("source-reuses-one-context-object")
    last_interrupt = None      # kind of the last interrupted dump run
    interrupted_before = False
    r = 0
    was_gc = gc.isenabled()
    gc.disable()
    try:
        for op in sc.ops:
            if res.violations:
                break
            if getattr(op, "release", False) and shared.get("held"):
                # the consumer that had stopped finally lets go of its generator(s)
                log.ev("op", "release-held", len(shared["held"]))
                res.say("the %d generator(s) kept by earlier consumers are closed" % len(shared["held"]))
                res.probe("held-generator-released-before-a-later-run")
                for g, fin, gobj in shared["held"]:
                    if procs.switch(gobj):
                        res.probe("held-run-of-the-other-process-released")
                    if fin is not None and op.release_how == "finish":
                        finish_held(sc, g, fin, allowed, res, log)
                        continue
                    try:
                        g.close()
                    except HarnessError:
                        raise
                    except Exception as e:  # noqa: BLE001
                        log.ev("raise", "release", type(e).__name__)
                shared["held"] = []
                if res.violations:
                    break
            if op.kind == "drop":
                log.ev("op", "drop_cache", op.target)
                res.say("drop_cache(cache %d)" % (op.target + 1))
                res.fault("drop_cache")
                key = ("pl", getattr(op, "obj", 0))
                procs.switch(getattr(op, "obj", 0))
                if sc.reuse and shared.get(key) is not None:
                    pl = shared[key]
                else:
                    pl = Pipeline(sc, _plain_op(sc), log, -1)
                    if sc.reuse:
                        shared[key] = pl
                try:
                    pl.caches[op.target].drop_cache()
                except OSError:
                    pass
                allowed[op.target] = [None]
                continue
            if getattr(op, "rerun_hoisted", False) and shared.get("hoisted") is not None \
                    and not op.eio and not getattr(op, "enospc", None) and not op.crash:
                r += 1
                fs.new_run()
                # (an extra run in front of this operation)
                procs.switch(shared.get("hoisted-obj", 0))
                rerun_hoisted(sc, shared["hoisted"], r, allowed, res, log, fs)
                if res.violations:
                    break
            r += 1
            fs.new_run()
            desc = "run %d: n=%d %s" % (r, op.n, op.kind)
            if op.kind == "stop":
                desc += "(k=%d, %s)" % (op.k, op.how)
            elif op.kind in ("raise-up", "raise-down"):
                desc += "(%s raises at its value %d)" % (op.target, op.k)
            if any(op.recompute):
                desc += " recompute=%s" % op.recompute
            if op.hoist != "none":
                desc += " hoist=%s" % op.hoist
            if sc.reuse and op.rebuild and r > 1:
                desc += " (new object)"
            if getattr(sc, "two", False):
                desc += " [object %d]" % op.obj
            if op.eio:
                desc += " EIO at read %d" % op.eio
            if getattr(op, "enospc", None):
                desc += " ENOSPC at flush %d" % op.enospc
            if op.crash:
                desc += " PROCESS-CRASH at disk op %d tear=%d" % op.crash
            res.say(desc)
            log.ev("op", "run", r, op.kind, op.k, op.n)
            ops_before = len(fs.oplog)
            if op.crash:
                fs.crash_at = op.crash[0]
                tear = op.crash[1]
                fs.crash_tear = lambda path, n, tear=tear: (0, n, n // 2, max(n - 1, 0))[tear]
            eio_before = fs.fired.get("EIO", 0)
            if op.eio:
                fs.eio_at = op.eio
            toolong_before = fs.fired.get("ENAMETOOLONG", 0)
            enospc_before = fs.fired.get("ENOSPC-at-flush", 0)
            if getattr(op, "enospc", None):
                fs.enospc_flush_at = op.enospc
            obs = execute_run(sc, op, log, r, res, fs, shared)
            fs.eio_at = None
            fs.enospc_flush_at = None
            obs["nametoolong"] = fs.fired.get("ENAMETOOLONG", 0) > toolong_before
            if obs["nametoolong"]:
                res.fault("write-error-ENAMETOOLONG")
            obs["enospc"] = fs.fired.get("ENOSPC-at-flush", 0) > enospc_before
            if obs["enospc"]:
                res.fault("write-error-ENOSPC-at-close")
            obs["eio"] = fs.fired.get("EIO", 0) > eio_before
            if obs["eio"]:
                res.fault("read-error-EIO")
            if op.crash:
                # beyond the quantifier: never judged; afterwards anything that is
                # not wrong data is acceptable, so the model forgets what it knew.
                crashed = fs.crashed
                fs.crash_at = None
                if crashed:
                    res.fault("process-crash")
                    fs.restart()
                    shared["pl"] = None
                    beyond_crash(sc, res, fs, log, allowed, r, op)
                    # state after a crash is outside the model: stop judging
                    break
            judge(sc, op, r, obs, allowed, res, fs, ops_before,
                  last_interrupt, interrupted_before)
            if res.violations:
                break
            if obs.get("held_new"):
                # the kept generator may later be consumed to its end when it belongs to a pipeline
                # object that no other run uses and every state that explains the run so far has
                # all its caches dumping (then the rest of the flow and what it stores are determined)
                ms = obs.get("matching") or []
                # (a generator that was never started decides about dump or replay when it is)
                if (not sc.reuse and ms and len(obs["out"]) >= 1
                        and all(e["replay_from"] is None for _, e in ms)
                        and not obs.get("eio") and not obs.get("enospc")):
                    g, _, gobj = shared["held"][-1]
                    shared["held"][-1] = (g, {"exp": ms[0][1], "k": len(obs["out"]), "r": r}, gobj)
            # bookkeeping for signatures and probes
            if not obs["model_complete"]:
                if (obs.get("enospc") or obs.get("nametoolong")) and obs["exc"] == "OSError":
                    last_interrupt = "write-error"
                elif op.kind == "stop":
                    last_interrupt = "consumer-stop"
                elif op.kind == "raise-down":
                    last_interrupt = "downstream-raise"
                elif op.kind == "raise-up":
                    last_interrupt = "upstream-raise"
                interrupted_before = True
    finally:
        sys.unraisablehook = old_unraisable
        if was_gc:
            gc.enable()
    res.ticks = fs.clock.now - 1000
    return res


def rerun_hoisted(sc, hpl, r, allowed, res, log, fs):
    """The Source that alter_sequence made of the pipeline when its cache was filled is called
    again, whatever happened to the cache since: if the cache is (still) there it replays it;
    if not, it has no upstream to run - anything but a loud failure would be wrong data."""
    res.say("run %d: the Source an earlier run got from alter_sequence is called again" % r)
    log.ev("op", "rerun-hoisted", r)
    res.probe("kept-hoisted-source-called-again")
    plain = _plain_op(sc)
    hpl.configure(plain, r)
    out, exc = [], None
    try:
        for v in hpl.hoisted_seq():
            out.append(v)
            log.ev("out", len(out) - 1, summarize(v))
    except HarnessError:
        raise
    except Exception as e:  # noqa: BLE001
        exc = type(e).__name__
        log.ev("raise", "rerun-hoisted", exc)
        e.__traceback__ = None
    stored = [p for p in allowed[0] if p is not None]
    if exc is None:
        ok = [p for p in stored if model_run(sc, plain, r, (p,))["out"] == out]
        if ok and hpl.upstream_activity(0) == 0:
            allowed[0] = ok
            res.nontrivial = True
            return
        res.viol("C18:Cache:kept-hoisted-source:%s" % ("silent-wrong-flow" if not ok else "ran-upstream"),
                 "the hoisted Source yielded %s without an error; the cache holds %s"
                 % (_short(out), "nothing" if not stored else " or ".join(_short(list(p)) for p in stored)))
        return
    # a loud failure: right when there is no cache to replay; it must not have published one
    if None not in allowed[0]:
        res.viol("C18:Cache:kept-hoisted-source:raises-%s" % exc,
                 "the hoisted Source raised %s although the cache is filled" % exc)
        return
    res.probe("hoisted-source-fails-loudly-without-its-cache")
    allowed[0] = [None]
    if hpl.caches[0].cache_exists():
        res.viol("C18:Cache:kept-hoisted-source:published-a-cache",
                 "the failed call (%s) of the hoisted Source left a cache file behind" % exc)


def finish_held(sc, g, fin, allowed, res, log):
    """The consumer of an earlier, stopped run takes the rest of its flow: the run is a complete
    first run after all (whatever ran in between): it yields the rest of its flow unaltered and
    stores the flow."""
    exp, k, r0 = fin["exp"], fin["k"], fin["r"]
    res.say("the consumer of run %d comes back and takes the rest of its flow" % r0)
    log.ev("op", "finish-held", r0)
    res.probe("held-run-finished-after-later-runs")
    res.nontrivial = True
    rest = []
    try:
        for v in g:
            rest.append(copy.deepcopy(v) if getattr(sc, "shared_ctx", False) else v)
            log.ev("out", k + len(rest) - 1, summarize(v))
    except HarnessError:
        raise
    except Exception as e:  # noqa: BLE001
        log.ev("raise", "finish-held", type(e).__name__, repr(e)[:200])
        res.viol("C18:Cache:resumed-run:raises-%s" % type(e).__name__,
                 "run %d, resumed after later operations, raised %r after %d more values (expected "
                 "the rest of its flow, %d values)" % (r0, e, len(rest), len(exp["full"]) - k))
        e.__traceback__ = None
        return
    if rest != exp["full"][k:]:
        res.viol("C18:Cache:resumed-run:wrong-values",
                 "run %d, resumed after later operations, yielded %s, expected %s"
                 % (r0, _short(rest), _short(exp["full"][k:])))
        return
    for c, flow in exp["dumped"].items():
        # it stores its flow; if a complete cache was there already, keeping that one is as good
        allowed[c] = [flow] + [p for p in allowed[c] if p is not None and p != flow]


def _plain_op(sc):
    op = Op()
    op.kind = "complete"
    op.n = 0
    op.k = 0
    op.target = None
    op.recompute = [False] * sc.ncaches
    op.rebuild = True
    op.hoist = "none"
    op.eio = None
    op.enospc = None
    op.crash = None
    op.obj = 0
    op.release = False
    op.release_how = "close"
    op.rerun_hoisted = False
    return op


def execute_run(sc, op, log, r, res, fs, shared=None):
    out = []
    exc = None
    exhausted = False
    hoisted = False
    pl = None
    gen = None
    held_new = False
    try:
        key = ("pl", getattr(op, "obj", 0))
        if shared is not None and shared.get("procs") is not None:
            if shared["procs"].switch(getattr(op, "obj", 0)):
                res.probe("process-switch")
                if shared.get("held"):
                    res.probe("run-while-another-process-is-suspended-in-a-dump")
        if shared is not None and sc.reuse and shared.get(key) is not None and not op.rebuild:
            pl = shared[key]
            pl.configure(op, r)
            res.probe("same-object-reused")
            if getattr(sc, "two", False) and shared.get("last-obj") not in (None, op.obj):
                res.probe("other-object-ran-in-between")
        else:
            pl = Pipeline(sc, op, log, r)
            if shared is not None and sc.reuse:
                shared[key] = pl
        if shared is not None:
            shared["last-obj"] = getattr(op, "obj", 0)
        gen, hoisted = pl.start(op.hoist)
        if hoisted and shared is not None:
            shared["hoisted"] = pl
            shared["hoisted-obj"] = getattr(op, "obj", 0)
        want = op.k if op.kind == "stop" else None
        while want is None or len(out) < want:
            try:
                v = next(gen)
            except StopIteration:
                exhausted = True
                break
            # a snapshot: the source may update the context object of the value in place
            out.append(copy.deepcopy(v) if getattr(sc, "shared_ctx", False) else v)
            log.ev("out", len(out) - 1, summarize(v))
        if op.kind == "stop" and not exhausted:
            if op.how == "close":
                res.fault("consumer-stop-close")
                log.ev("stop", "close")
                gen.close()
            elif op.how == "hold":
                res.fault("consumer-stop-hold")
                log.ev("stop", "hold")
                if shared is not None:
                    shared.setdefault("held", []).append((gen, None, getattr(op, "obj", 0)))
                    held_new = True
            else:
                res.fault("consumer-stop-drop")
                log.ev("stop", "drop")
            gen = None
    except Boom as e:
        exc = "Boom"
        e.__traceback__ = None
        if op.kind == "raise-down":
            res.fault("raise-downstream")
        elif op.target == "src":
            res.fault("raise-upstream-source")
        else:
            res.fault("raise-upstream-element")
    except ProcessCrash:
        exc = "ProcessCrash"
    except HarnessError:
        raise
    except Exception as e:  # noqa: BLE001
        exc = type(e).__name__
        log.ev("raise", "pipeline", exc, repr(e)[:200])
        e.__traceback__ = None
    gen = None
    if any(op.recompute):
        res.fault("recompute")
    obs = {"out": out, "exc": exc, "exhausted": exhausted, "hoisted": hoisted, "pl": pl,
           "held_new": held_new}
    log.ev("run-end", r, len(out), exc, exhausted)
    return obs


def judge(sc, op, r, obs, allowed, res, fs, ops_before, last_interrupt, interrupted_before):
    pl = obs["pl"]
    combos = list(itertools.product(*[sorted(a, key=lambda p: (p is not None, repr(p)))
                                      for a in allowed]))
    matching = []
    near = []   # combos matching in output but violating "no upstream activity"
    exps = []
    for combo in combos:
        exp = model_run(sc, op, r, combo)
        exps.append(exp)
        same = (obs["out"] == exp["out"] and obs["exc"] == exp["exc"]
                and obs["exhausted"] == exp["exhausted"])
        if not same:
            continue
        if exp["replay_from"] is not None and pl is not None \
                and pl.upstream_activity(exp["replay_from"]) != 0:
            near.append((combo, exp))
            continue
        matching.append((combo, exp))
    obs["model_complete"] = all(e["complete"] for e in exps)
    if (obs.get("eio") or obs.get("enospc") or obs.get("nametoolong")) and obs["exc"] == "OSError":
        # injected read error, relaxed oracle: the run may fail loudly; what it
        # delivered before must be a prefix of what some allowed state predicts;
        # caches it was dumping are interrupted (old complete cache or nothing).
        obs["model_complete"] = False
        ok = [(combo, e) for combo, e in zip(combos, exps)
              if obs["out"] == e["out"][:len(obs["out"])]]
        if not ok:
            res.viol("C18:Cache:%s:wrong-data-before-failing" % ("read-error" if obs.get("eio") else "write-error"),
                     "run %d failed with the injected I/O error after yielding %s, which no allowed "
                     "state explains" % (r, _short(obs["out"])))
            return
        res.probe("read-error-surfaced-loudly" if obs.get("eio") else "write-error-surfaced-loudly")
        res.nontrivial = True
        new_allowed = [[] for _ in range(sc.ncaches)]
        for combo, exp in ok:
            for c in range(sc.ncaches):
                _add(new_allowed[c], combo[c])
                if c in exp["dumped"]:
                    _add(new_allowed[c], None)
                    if obs.get("enospc") and len(obs["out"]) == len(exp["full"]):
                        # the whole flow went through: a cache whose own file was closed before
                        # the disk ran full has legitimately stored its complete flow
                        _add(new_allowed[c], exp["dumped"][c])
        for c in range(sc.ncaches):
            allowed[c] = new_allowed[c]
        return
    obs["matching"] = matching
    if matching:
        # probes
        for combo, exp in matching:
            if exp["replay_from"] is not None:
                res.probe("replay-run")
                res.nontrivial = True
                if interrupted_before:
                    res.probe("replay-after-interrupted-run")
                if exp["replay_from"] == 0 and sc.ncaches == 2:
                    res.probe("two-caches-inner-replay")
                if obs["hoisted"]:
                    res.probe("hoisted-to-source")
                if sc.form == "split":
                    res.probe("split-form-replay")
                if len(combo[exp["replay_from"]]) == 0:
                    res.probe("empty-flow-cached")
                if sc.fc:
                    res.probe("accumulator-upstream-of-replay")
                # disk hygiene: a pure replay run creates and writes nothing
                # (judged only when every state that explains the run is a pure replay)
                if not any(e["dumped"] for _, e in matching):
                    muts = fs.mutations(ops_before)
                    if muts:
                        res.viol("C18:Cache:replay:wrote-to-disk", "run %d replays the cache "
                                 "but performed %r" % (r, muts[:3]))
                        return
            break
        if op.kind == "stop" and not obs["exhausted"] and op.k == len(matching[0][1]["full"]):
            res.probe("stop-at-exact-length")
        if not all(e["complete"] for _, e in matching):
            res.nontrivial = True
        # new state: union over the matching combos
        new_allowed = [[] for _ in range(sc.ncaches)]
        for combo, exp in matching:
            for c in range(sc.ncaches):
                if c in exp["dumped"]:
                    if exp["complete"]:
                        _add(new_allowed[c], exp["dumped"][c])
                    else:
                        # interrupted dump: old complete cache or nothing
                        _add(new_allowed[c], None)
                        if combo[c] is not None:
                            _add(new_allowed[c], combo[c])
                            res.probe("interrupted-recompute-over-existing-cache")
                else:
                    _add(new_allowed[c], combo[c])
        for c in range(sc.ncaches):
            allowed[c] = new_allowed[c]
        return

    # ---- no allowed state explains the run: classify ----------------------
    exp_text = "; ".join("caches=%s -> out=%s exc=%s exhausted=%s" % (
        [None if p is None else len(p) for p in combo], _short(e["out"]), e["exc"], e["exhausted"])
        for combo, e in zip(combos, exps))
    got_text = "out=%s exc=%s exhausted=%s pulls=%s" % (
        _short(obs["out"]), obs["exc"], obs["exhausted"], pl.src.attempts if pl else "?")
    detail = "run %d (%s) gave %s; allowed: %s" % (r, op.kind, got_text, exp_text)
    if pl is not None and all(e["replay_from"] is not None for e in exps) and max(
            pl.upstream_activity(e["replay_from"]) for e in exps) > 0 and not near:
        # every allowed state replays a stored flow, yet the upstream worked
        # (whatever else went wrong afterwards, this came first)
        near = [(None, None)]
    if near:
        what = "accumulator" if sc.fc else ("source" if pl.src.attempts else "element")
        res.viol("C18:Cache:replay:ran-upstream:%s" % what,
                 detail + " -- the stored flow was to be replayed but upstream worked "
                 "(source __next__ calls=%d)" % pl.src.attempts)
        return
    if obs["exc"] not in (None, "Boom") or (obs["exc"] == "Boom" and not any(e["exc"] for e in exps)):
        res.viol("C18:Cache:run:unexpected-exception:%s" % obs["exc"], detail)
        return
    if obs.get("eio"):
        res.viol("C18:Cache:read-error:silent-wrong-flow", detail + " -- a read error (EIO) was "
                 "injected while the cache was loaded; the run ended normally with a flow that "
                 "is not the stored one")
        return
    stamps = set(_stamps(obs["out"]))
    no_pulls = pl is not None and pl.src.attempts == 0
    shorter = obs["exc"] is None and len(obs["out"]) < min(len(e["out"]) for e in exps)
    if interrupted_before and (stamps - set([r]) or shorter):
        res.viol("C18:Cache:%s:truncated-replay" % (last_interrupt or "interrupted"),
                 detail + " -- values of an interrupted earlier run were served as the flow")
        return
    if stamps - set([r]) or no_pulls:
        res.viol("C18:Cache:replay:wrong-values", detail)
        return
    if any(e["replay_from"] is not None for e in exps) and all(
            e["replay_from"] is not None for e in exps):
        res.viol("C18:Cache:replay:not-served", detail + " -- a complete cache exists but "
                 "the flow was recomputed")
        return
    res.viol("C18:Cache:first-run:altered-flow", detail)


def _add(lst, p):
    if p not in lst:
        lst.append(p)


def _stamps(vals):
    out = []

    def walk(x):
        if isinstance(x, tuple):
            if len(x) == 3 and x[0] == "v" and isinstance(x[1], int):
                out.append(x[1])
                return
            for y in x:
                walk(y)
    for v in vals:
        walk(v)
    return out


def _short(vals):
    return "[%d values, runs %s]" % (len(vals), sorted(set(_stamps(vals))))


def beyond_crash(sc, res, fs, log, allowed, r, crashed_op=None):
    """After a process crash (beyond the quantifier) run the pipeline once
    more and only record whether what it serves is explained by some
    complete run (old cache, nothing, or the crashed run if it had got as
    far as publishing)."""
    poss = []
    for c in range(sc.ncaches):
        p = list(allowed[c])
        _add(p, None)
        poss.append(p)
    if crashed_op is not None:
        for combo in itertools.product(*[list(a) for a in allowed]):
            exp = model_run(sc, crashed_op, r, combo)
            for c, flow in exp["dumped"].items():
                _add(poss[c], flow)
    op = _plain_op(sc)
    op.n = 3
    obs = execute_run(sc, op, log, r + 100, res, fs)
    if obs["exc"] is not None:
        res.beyond["after-crash:next-run-fails-loudly:%s" % obs["exc"]] = 1
        return
    for combo in itertools.product(*poss):
        exp = model_run(sc, op, r + 100, combo)
        if obs["out"] == exp["out"]:
            if exp["replay_from"] is None:
                res.beyond["after-crash:next-run-recomputes"] = 1
            else:
                res.beyond["after-crash:next-run-replays-a-complete-flow"] = 1
            return
    res.beyond["after-crash:next-run-serves-data-no-complete-run-explains"] = 1
