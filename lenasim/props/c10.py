"""C10 - selective elements pass the values they do not select through untouched.

One selective element E with drawn options runs, behind the disk, clock and
process seams, over seeded merge schedules of a list A of values it selects and
a list B of values it must not select (built from E's own documented rule).
Unselected values must come out as the very same objects, in order, unmutated
and without a single access to the disk, the template loader or the process
table; what E produces for A, and the final disk image, must not depend on the
interleaved B values.  The completion order of LaTeXToPDF's child processes is
drawn by the simulator.  DESIGN.md section 3, C10.
"""
import copy
import contextlib
import io

import jinja2

import lena.context
import lena.core
import lena.flow
import lena.flow.elements as flow_elements_mod
import lena.flow.group_plots as group_plots_mod
import lena.output
import lena.output.write as write_mod
import lena.output.to_csv as to_csv_mod
import lena.output.render_latex as render_mod
import lena.output.latex_to_pdf as latex_mod
import lena.output.pdf_to_png as png_mod
import lena.structures
import lena.structures.elements as struct_elements_mod
import lena.structures.split_into_bins as sib_mod
import lena.variables
import collections
import warnings

warnings.filterwarnings("ignore", message=".*hist_to_csv not implemented.*")

from ..kernel import RunResult, summarize, exception_origin, exception_site
from ..seams.fs import SimFS, SimOS, SimTempfile, Clock
from ..seams.proc import SimSubprocess
from ..seams.flow import Unprintable, NoEq

PROPERTY = "C10"
LEVEL = "exploration"
ABSTRACT_WIDTH = 5
N_RUNS = {"quick": 60000, "thorough": 3000000}
RULE = ("each run draws one selective element with options (ToCSV, Write, RenderLaTeX, LaTeXToPDF, "
        "PDFToPNG, HistToGraph, MapBins, IterateBins, RunIf, MapGroup(map_scalars=False)), a list A "
        "of 0-4 values it selects, a list B of 0-6 values it does not select (built from the "
        "element's own documented rule: numbers, strings where strings are not selected, tuples, "
        "foreign objects, pairs with unrelated context, pairs with the disabling context, wrong "
        "output.filetype, a non-dictionary under output / histogram), a completion plan for child "
        "processes and 4 (thorough 12) merge schedules of A and B; every schedule is run on a "
        "fresh simulated disk with the same initial files and compared with the run on A alone; "
        "non-trivial = A and B both non-empty; distinct = distinct abstracted event-kind sequences. "
        "Since the seeded rounds B also holds: one-shot iterators, unprintable objects, bytes, contexts "
        "that are defaultdicts, histograms whose bins carry contexts, options the element reads for "
        "selected values (duplicate_last_bin), near-miss file types, a file extension without a "
        "file type, a foreign object that opens its file when its write attribute is asked for; "
        "child processes may fail by plan; when nothing is selected every access log must be empty")
REAL = ["lena.output.ToCSV", "lena.output.Write", "lena.output.RenderLaTeX (jinja2 through a "
        "FunctionLoader on the simulated disk)", "lena.output.LaTeXToPDF", "lena.output.PDFToPNG",
        "lena.structures.HistToGraph", "lena.structures.MapBins", "lena.structures.IterateBins",
        "lena.flow.RunIf", "lena.flow.MapGroup"]
STUB = ["SimFS / SimOS / open installed in every module of the ten elements", "SimSubprocess (fake "
        "pdflatex / pdftoppm, completion drawn)", "template loader log", "merge scheduler", "value "
        "builders for A and B"]
ASSUMPTIONS = [
    "B is built from each element's own documented selection rule (a string is a value Write "
    "selects, so a string with a malformed context.output is not an unselected value)",
    "selected outputs are compared as a sequence, for LaTeXToPDF (documented parallel conversion, "
    "results in completion order) as a multiset",
    "file-system accesses are compared as multisets of (operation, path, size): when a child "
    "process finishes relative to other accesses is the simulator's choice",
    "foreign objects are compared by identity and by a snapshot of their __dict__",
]
FAULT_KINDS = ["converter-finishes-after-k-polls", "converter-finishes-at-communicate",
               "child-process-fails", "disabling-context", "non-dict-subcontext"]
EXPECTED_PROBES = ["A-empty", "B-empty", "A-and-B", "unselected-between-two-selected",
                   "poll-triggered-by-unselected-value", "disk-written", "process-launched",
                   "template-loaded"] + ["element-" + n for n in
                                         ["ToCSV", "Write", "RenderLaTeX", "LaTeXToPDF", "PDFToPNG", "HistToGraph",
                                          "MapBins", "IterateBins", "RunIf", "MapGroup"]]

_TIER = ["quick"]


def set_tier(t):
    _TIER[0] = t


class Spec(object):
    pass


class Foreign(object):
    """an object no element knows"""

    def __init__(self, n):
        self.n = n
        self.payload = {"n": n}


class WriteProp(object):
    """a foreign object that opens its output file lazily, when its `write` attribute is first
    asked for (a property): an element that was told not to write it has no business asking"""

    def __init__(self, fs, n):
        self._fs = fs
        self.n = n

    @property
    def write(self):
        fs = self._fs
        if "/sim/lazy" not in fs.dirs:
            fs.makedirs("/sim/lazy")
        f = fs.open("/sim/lazy/sink%d" % self.n, "w")
        return lambda filepath: f.close()


class Writable(object):
    """object with a write(path) method (selected by Write)"""

    def __init__(self, fs, text):
        self._fs = fs
        self.text = text

    def write(self, filepath):
        import posixpath
        d = posixpath.dirname(self._fs.norm(filepath))
        if d not in self._fs.dirs:
            self._fs.makedirs(d)
        with self._fs.open(filepath, "w") as f:
            f.write(self.text)


MODULES = [write_mod, to_csv_mod, render_mod, latex_mod, png_mod, struct_elements_mod, sib_mod,
           flow_elements_mod, group_plots_mod]


def install(fs, sub):
    simos = SimOS(fs)
    for m in MODULES:
        m.os = simos
        m.open = fs.open
        m.subprocess = sub
        if hasattr(m, "tempfile"):
            m.tempfile = SimTempfile(fs, simos)


# --------------------------------------------------------------------------
# canonical form / snapshots

def canon(x, depth=0, fs=None):
    if depth > 10:
        return "..."
    if isinstance(x, bool) or x is None or isinstance(x, (int, str)):
        return x
    if isinstance(x, float):
        return ("nan",) if x != x else x
    if isinstance(x, lena.structures.histogram):
        return ("histogram", canon(x.edges, depth + 1), canon(x.bins, depth + 1))
    if isinstance(x, lena.structures.graph):
        try:
            sc_ = x.scale()
        except Exception:  # noqa: BLE001
            sc_ = None
        return ("graph", canon(x.coords, depth + 1), canon(x.field_names, depth + 1), canon(sc_))
    if isinstance(x, tuple):
        return ("t",) + tuple(canon(y, depth + 1) for y in x)
    if isinstance(x, list):
        return ("l",) + tuple(canon(y, depth + 1) for y in x)
    if isinstance(x, dict):
        return ("d",) + tuple(sorted(((repr(k), canon(v, depth + 1)) for k, v in x.items())))
    if isinstance(x, Unprintable):
        return ("unprintable", x.n)
    if isinstance(x, bytes):
        return ("bytes", x.decode("latin-1"))
    if isinstance(x, OneShot):
        return ("oneshot", tuple(x.items), x.taken)
    if isinstance(x, (Foreign, Writable, WriteProp, NoEq)):
        d = dict((k, v) for k, v in x.__dict__.items() if not k.startswith("_"))
        return ("obj", type(x).__name__, canon(d, depth + 1))
    return ("obj", type(x).__name__)


# --------------------------------------------------------------------------
# elements: options, selected values, unselected values

def hist1(k=0):
    return lena.structures.histogram([0, 1, 2], [3 + k, 5])


def hist2(k=0):
    return lena.structures.histogram([[0, 1, 2], [0, 2]], [[1 + k], [2]])


def hist_of_hists(k=0):
    return lena.structures.histogram([0, 1, 2], [(hist1(k), {"cell": {"i": 0}}), (hist1(k + 1), {"cell": {"i": 1}})])


def a_graph(k=0):
    return lena.structures.graph([[0, 1], [2 + k, 3]])


COMMON_B = ["int", "float", "tuple", "foreign", "none", "pair-unrelated", "list", "pair-foreign",
            "iterator", "pair-iterator", "unprintable", "pair-unprintable", "bytes",
            "pair-defaultdict-ctx", "pair-defaultdict-output", "pair-noeq-filepath", "pair-empty-ctx"]





class OneShot(object):
    """a one-shot iterator as data (a generator, an open file): passing it on must not consume it"""

    def __init__(self, items):
        self.items = list(items)
        self._it = iter(self.items)
        self.taken = 0

    def __iter__(self):
        return self

    def __next__(self):
        v = next(self._it)
        self.taken += 1
        return v



def common_b(kind, j, fs):
    if kind == "int":
        return 7 + j
    if kind == "float":
        return 2.5 + j
    if kind == "tuple":
        return (j, "t", [j])
    if kind == "foreign":
        return Foreign(j)
    if kind == "none":
        return None
    if kind == "pair-unrelated":
        return (j, {"info": {"j": j}, "tags": [j]})
    if kind == "list":
        return [j, j + 1]
    if kind == "pair-foreign":
        return (Foreign(j), {"plot": {"name": "f%d" % j}})
    if kind == "unprintable":
        return Unprintable(j)
    if kind == "pair-unprintable":
        return (Unprintable(j), {"info": {"j": j}})
    if kind == "bytes":
        return (b"raw bytes %d" % j, {"output": {"filename": "bytes%d" % j}})
    if kind == "pair-defaultdict-ctx":
        # a context that is a dictionary subclass with __missing__: looking a key up with [] changes it
        return (j, collections.defaultdict(dict, {"info": {"j": j}}))
    if kind == "pair-defaultdict-output":
        return (j, {"info": {"j": j}, "output": collections.defaultdict(dict)})
    if kind == "pair-empty-ctx":
        # a pair with an empty context is a pair, not the bare data
        return (j, {})
    if kind == "pair-noeq-filepath":
        # data that cannot be compared (an array compares element-wise; here == raises), with the
        # path of a file written elsewhere in its context
        return (NoEq(j), {"output": {"filepath": "out/elsewhere%d.txt" % j}})
    if kind == "iterator":
        return OneShot([j, j + 1])
    if kind == "pair-iterator":
        return (OneShot([j, j + 1, j + 2]), {"info": {"j": j}})
    raise ValueError(kind)


class El(object):
    name = "?"
    multiset = False

    def options(self, tape):
        return {}

    def build(self, opts, w):
        raise NotImplementedError

    a_kinds = []
    b_kinds = []

    def make_a(self, kind, i, w):
        raise NotImplementedError

    def make_b(self, kind, j, w):
        return common_b(kind, j, w.fs)

    def prepare(self, w, a_specs):
        pass


class EToCSV(El):
    name = "ToCSV"
    a_kinds = ["hist1-ctx", "hist1-bare", "hist2-ctx", "graph-ctx", "hist1-tocsv-true"]
    b_kinds = COMMON_B + ["str", "str-ctx", "hist-tocsv-false", "graph-tocsv-false", "nondict-output",
                          "hist-tocsv-false-dup-true", "hist-tocsv-false-dup-false", "int-dup-true",
                          "int-dup-false", "hist3-ctx", "hist3-bare"]

    def options(self, tape):
        return {"separator": tape.choice([",", ";"], "separator"),
                "header": tape.choice([None, "x,y"], "header"),
                "dup": bool(tape.draw(2, "duplicate_last_bin"))}

    def build(self, o, w):
        return lena.output.ToCSV(separator=o["separator"], header=o["header"], duplicate_last_bin=o["dup"])

    def make_a(self, kind, i, w):
        if kind == "hist1-ctx":
            return (hist1(i), {"plot": {"name": "a%d" % i}})
        if kind == "hist1-bare":
            return hist1(i)
        if kind == "hist2-ctx":
            return (hist2(i), {"plot": {"name": "a%d" % i}})
        if kind == "graph-ctx":
            return (a_graph(i), {"plot": {"name": "a%d" % i}})
        return (hist1(i), {"output": {"to_csv": True}})

    def make_b(self, kind, j, w):
        if kind == "str":
            return "some/path%d.txt" % j
        if kind == "str-ctx":
            return ("text %d" % j, {"output": {"filetype": "tex"}})
        if kind == "hist-tocsv-false":
            return (hist1(j), {"output": {"to_csv": False}})
        if kind == "graph-tocsv-false":
            return (a_graph(j), {"output": {"to_csv": False, "x": [j]}})
        if kind == "nondict-output":
            return (j, {"output": "raw"})
        # unselected values whose context carries an option ToCSV reads for the values it converts
        if kind.startswith("hist-tocsv-false-dup"):
            return (hist1(j), {"output": {"to_csv": False, "duplicate_last_bin": kind.endswith("true")}})
        if kind.startswith("int-dup"):
            return (j, {"output": {"duplicate_last_bin": kind.endswith("true")}})
        if kind == "hist3-ctx":
            # documented: histograms of three and more dimensions are not converted
            return (lena.structures.histogram([[0, 1, 2], [0, 2], [0, 1]], [[[1 + j]], [[2]]]),
                    {"plot": {"name": "b%d" % j}})
        if kind == "hist3-bare":
            return lena.structures.histogram([[0, 1, 2], [0, 2], [0, 1]], [[[1 + j]], [[2]]])
        return common_b(kind, j, w.fs)


class EWrite(El):
    name = "Write"
    a_kinds = ["str-named", "str-dir", "writable", "str-existing-same", "str-existing-differs"]
    b_kinds = COMMON_B + ["str-write-false", "writable-write-false", "hist-ctx", "nondict-output",
                          "write-property-write-false"]

    def options(self, tape):
        return {"mode": tape.weighted([(4, "plain"), (1, "existing_unchanged"), (1, "overwrite")], "mode"),
                "outdir": tape.choice(["out", "out/deep"], "outdir")}

    def build(self, o, w):
        kw = {} if o["mode"] == "plain" else {o["mode"]: True}
        return lena.output.Write(o["outdir"], verbose=False, **kw)

    def make_a(self, kind, i, w):
        if kind == "str-named":
            return ("content %d" % i, {"output": {"filename": "a%d" % i, "filetype": "csv"}})
        if kind == "str-dir":
            return ("content %d" % i, {"output": {"filename": "a%d" % i, "dirname": "d%d" % i}})
        if kind == "writable":
            return (Writable(w.fs, "written %d" % i), {"output": {"filename": "w%d" % i, "fileext": "dat"}})
        if kind == "str-existing-same":
            return ("old content %d" % i, {"output": {"filename": "e%d" % i, "fileext": "txt"}})
        return ("new content %d" % i, {"output": {"filename": "e%d" % i, "fileext": "txt", "changed": False}})

    def prepare(self, w, a_specs):
        for kind, i in a_specs:
            if kind in ("str-existing-same", "str-existing-differs"):
                w.fs.poke("%s/e%d.txt" % (w.opts["outdir"], i), "old content %d" % i)

    def make_b(self, kind, j, w):
        if kind == "str-write-false":
            return ("not to be written %d" % j, {"output": {"write": False, "filename": "b%d" % j}})
        if kind == "writable-write-false":
            return (Writable(w.fs, "no %d" % j), {"output": {"write": False}})
        if kind == "write-property-write-false":
            return (WriteProp(w.fs, j), {"output": {"write": False, "filename": "wp%d" % j}})
        if kind == "hist-ctx":
            return (hist1(j), {"output": {"filename": "h%d" % j}})
        if kind == "nondict-output":
            return (j, {"output": "raw"})
        return common_b(kind, j, w.fs)


class StrLike(object):
    """not a string; str() of it is one"""

    def __init__(self, text):
        self.text = text

    def __str__(self):
        return self.text

    def __repr__(self):
        return "StrLike(%r)" % self.text

    def __eq__(self, other):
        return type(other) is StrLike and other.text == self.text

    def __ne__(self, other):
        return not self == other

    __hash__ = None


def filetype_of(kind):
    """("filetype-csvx" -> "csvx"; "filetype-{dict}csv" -> a dictionary with the key csv;
    "filetype-{obj}csv" -> an object that is not a string but prints as csv), extension"""
    name = kind[9:]
    if name.startswith("{dict}"):
        return {name[6:]: True}, name[6:]
    if name.startswith("{obj}"):
        return StrLike(name[5:]), name[5:]
    return name, name


TEMPLATE = "%% t\n\\input{\\VAR{ output.filepath }}\n%% \\VAR{ plot.name }"


class ERender(El):
    name = "RenderLaTeX"
    a_kinds = ["csv", "csv-template-in-context"]
    b_kinds = COMMON_B + ["str", "tex-typed", "pdf-typed", "hist-ctx", "write-false", "nondict-output",
                          "filetype-csvx", "filetype-CSV", "filetype-{dict}csv", "filetype-{obj}csv"]

    def options(self, tape):
        # the template comes from the element's default, from context.output.template only
        # (empty default), or from a callable that understands csv values only
        return {"verbose": 0, "select": tape.choice(["default", "from-context", "callable"], "select_template")}

    def build(self, o, w):
        fs = w.fs

        def load(name):
            w.template_loads.append(name)
            try:
                with fs.open("templates/" + name) as f:
                    return f.read()
            except FileNotFoundError:
                return None
        env = jinja2.Environment(loader=jinja2.FunctionLoader(load), **lena.output.jinja_syntax_latex)
        if o.get("select") == "from-context":
            return lena.output.RenderLaTeX(environment=env)
        if o.get("select") == "callable":
            def select(value):
                # written for the values RenderLaTeX selects: fails on anything else
                return value[1]["output"].get("template", "plot.tex")
            return lena.output.RenderLaTeX(select, environment=env)
        return lena.output.RenderLaTeX("plot.tex", environment=env)

    def prepare(self, w, a_specs):
        w.fs.poke("templates/plot.tex", TEMPLATE)
        w.fs.poke("templates/other.tex", TEMPLATE + "\n% other")

    def make_a(self, kind, i, w):
        ctx = {"output": {"filetype": "csv", "filepath": "out/a%d.csv" % i}, "plot": {"name": "a%d" % i}}
        if kind == "csv-template-in-context":
            ctx["output"]["template"] = "other.tex"
        elif w.opts.get("select") == "from-context":
            ctx["output"]["template"] = "plot.tex"
        return ("out/a%d.csv" % i, ctx)

    def make_b(self, kind, j, w):
        if kind == "str":
            return "out/b%d.csv" % j
        if kind == "tex-typed":
            return ("out/b%d.tex" % j, {"output": {"filetype": "tex"}, "plot": {"name": "b"}})
        if kind == "pdf-typed":
            return ("out/b%d.pdf" % j, {"output": {"filetype": "pdf"}})
        if kind == "hist-ctx":
            return (hist1(j), {"plot": {"name": "b"}})
        if kind == "write-false":
            return ("x", {"output": {"write": False}})
        if kind == "nondict-output":
            return (j, {"output": "raw"})
        if kind.startswith("filetype-"):
            return ("out/b%d.csv" % j, {"output": {"filetype": filetype_of(kind)[0], "filepath": "out/b%d.csv" % j},
                                        "plot": {"name": "b"}})
        return common_b(kind, j, w.fs)


class ELatex(El):
    name = "LaTeXToPDF"
    multiset = True
    a_kinds = ["tex-new", "tex-pdf-exists-changed", "tex-pdf-exists-unchanged", "tex-pdf-exists-nokey"]
    b_kinds = COMMON_B + ["str", "csv-typed", "pdf-typed", "hist-ctx", "nondict-output",
                          "filetype-texinfo", "filetype-text", "filetype-TEX", "filetype-latex",
                          "filetype-{dict}tex", "filetype-{obj}tex",
                          "fileext-tex-no-filetype"]

    def options(self, tape):
        return {"overwrite": tape.chance(1, 5, "overwrite")}

    def build(self, o, w):
        kw = {"overwrite": True} if o["overwrite"] else {}
        return lena.output.LaTeXToPDF(verbose=0, **kw)

    def prepare(self, w, a_specs):
        for kind, i in a_specs:
            w.fs.poke("out/a%d.csv" % i, "0,%d" % i)
            w.fs.poke("out/a%d.tex" % i, "\\input{out/a%d.csv}" % i)
            if kind != "tex-new":
                w.fs.poke("out/a%d.pdf" % i, "OLDPDF %d" % i)

    def make_a(self, kind, i, w):
        outc = {"filetype": "tex", "filename": "a%d" % i}
        if kind == "tex-pdf-exists-changed":
            outc["changed"] = True
        elif kind == "tex-pdf-exists-unchanged":
            outc["changed"] = False
        return ("out/a%d.tex" % i, {"output": outc, "plot": {"name": "a%d" % i}})

    def make_b(self, kind, j, w):
        if kind == "str":
            return "out/b%d.tex" % j
        if kind == "csv-typed":
            return ("out/b%d.csv" % j, {"output": {"filetype": "csv"}})
        if kind == "pdf-typed":
            return ("out/b%d.pdf" % j, {"output": {"filetype": "pdf", "changed": True}})
        if kind == "hist-ctx":
            return (hist1(j), {"output": {"filename": "tex"}})
        if kind == "nondict-output":
            return ("out/b%d.tex" % j, {"output": "tex"})
        if kind == "fileext-tex-no-filetype":
            # the extension of a file name is not the type of the data
            return ("out/b%d.tex" % j, {"output": {"filename": "b%d" % j, "fileext": "tex"}})
        if kind.startswith("filetype-"):
            # file types that merely resemble the selected one
            ft, ext = filetype_of(kind)
            return ("out/b%d.%s" % (j, ext), {"output": {"filetype": ft, "changed": True}})
        return common_b(kind, j, w.fs)


class EPng(El):
    name = "PDFToPNG"
    a_kinds = ["pdf-new", "pdf-png-exists-changed", "pdf-png-exists-unchanged", "pdf-png-exists-nokey"]
    b_kinds = COMMON_B + ["str", "csv-typed", "tex-typed", "png-typed", "nondict-output",
                          "filetype-pdfa", "filetype-PDF", "filetype-xpdf",
                          "filetype-{dict}pdf", "filetype-{obj}pdf"]

    def options(self, tape):
        return {"overwrite": tape.chance(1, 5, "overwrite"), "format": tape.choice(["png", "jpeg"], "format")}

    def build(self, o, w):
        kw = {"overwrite": True} if o["overwrite"] else {}
        if o["format"] != "png":
            kw["format"] = o["format"]
        return lena.output.PDFToPNG(verbose=False, **kw)

    def prepare(self, w, a_specs):
        for kind, i in a_specs:
            w.fs.poke("out/a%d.pdf" % i, "PDF %d" % i)
            if kind != "pdf-new":
                w.fs.poke("out/a%d.%s" % (i, w.opts["format"]), "OLDPNG %d" % i)

    def make_a(self, kind, i, w):
        outc = {"filetype": "pdf"}
        if kind == "pdf-png-exists-changed":
            outc["changed"] = True
        elif kind == "pdf-png-exists-unchanged":
            outc["changed"] = False
        return ("out/a%d.pdf" % i, {"output": outc, "plot": {"name": "a%d" % i}})

    def make_b(self, kind, j, w):
        if kind == "str":
            return "out/b%d.pdf" % j
        if kind == "csv-typed":
            return ("out/b%d.csv" % j, {"output": {"filetype": "csv"}})
        if kind == "tex-typed":
            return ("out/b%d.tex" % j, {"output": {"filetype": "tex", "changed": True}})
        if kind == "png-typed":
            return ("out/b%d.png" % j, {"output": {"filetype": "png"}})
        if kind == "nondict-output":
            return ("out/b%d.pdf" % j, {"output": "pdf"})
        if kind.startswith("filetype-"):
            ft, ext = filetype_of(kind)
            return ("out/b%d.%s" % (j, ext), {"output": {"filetype": ft, "changed": True}})
        return common_b(kind, j, w.fs)


class EHistToGraph(El):
    name = "HistToGraph"
    a_kinds = ["hist1-ctx", "hist1-bare", "hist1-tograph-true", "hist-ctx-bins"]
    b_kinds = COMMON_B + ["str", "graph", "hist-tograph-false", "nondict-histogram",
                          "hist-ctx-bins-tograph-false"]

    def options(self, tape):
        return {"coord": tape.choice(["left", "right", "middle"], "get_coordinate"),
                "scale": tape.choice([None, True], "scale")}

    def build(self, o, w):
        return lena.structures.HistToGraph(get_coordinate=o["coord"], scale=o["scale"])

    def make_a(self, kind, i, w):
        if kind == "hist1-ctx":
            return (hist1(i), {"plot": {"name": "a%d" % i}})
        if kind == "hist1-bare":
            return hist1(i)
        if kind == "hist-ctx-bins" and not w.opts.get("scale"):
            # (with scale=True lena cannot integrate bins that carry context: not this property's business)
            return (lena.structures.histogram([0, 1, 2], [(3 + i, {"cell": {"c": 1}}), (5, {"cell": {"c": 1}})]),
                    {"plot": {"name": "a%d" % i}})
        return (hist1(i), {"histogram": {"to_graph": True}})

    def make_b(self, kind, j, w):
        if kind == "str":
            return "s%d" % j
        if kind == "graph":
            return (a_graph(j), {"plot": {"name": "g"}})
        if kind == "hist-tograph-false":
            return (hist1(j), {"histogram": {"to_graph": False, "l": [j]}})
        if kind == "nondict-histogram":
            return (j, {"histogram": "raw"})
        if kind == "hist-ctx-bins-tograph-false":
            return (lena.structures.histogram([0, 1, 2], [(j, {"cell": {"c": [j]}}), (5, {"cell": {"c": [5]}})]),
                    {"histogram": {"to_graph": False}})
        return common_b(kind, j, w.fs)


def double(cell):
    return cell * 2


class EMapBins(El):
    name = "MapBins"
    a_kinds = ["hist-int-bins", "hist-int-bins-ctx", "hist-int-ctx-bins"]
    b_kinds = COMMON_B + ["str", "hist-float-bins", "hist-of-hists", "graph", "hist-float-ctx-bins",
                          "hist-list-bins"]

    def options(self, tape):
        return {"drop": bool(tape.draw(2, "drop_bins_context"))}

    def build(self, o, w):
        return lena.structures.MapBins(double, select_bins=int, drop_bins_context=o["drop"])

    def make_a(self, kind, i, w):
        if kind == "hist-int-bins":
            return hist1(i)
        if kind == "hist-int-ctx-bins":
            return (lena.structures.histogram([0, 1, 2], [(3 + i, {"cell": {"c": 1}}), (5, {"cell": {"c": 1}})]),
                    {"plot": {"name": "a%d" % i}})
        return (hist1(i), {"plot": {"name": "a%d" % i}})

    def make_b(self, kind, j, w):
        if kind == "str":
            return "s%d" % j
        if kind == "hist-float-bins":
            return (lena.structures.histogram([0, 1, 2], [0.5 + j, 1.5]), {"plot": {"name": "b"}})
        if kind == "hist-of-hists":
            return (hist_of_hists(j), {"plot": {"name": "b"}})
        if kind == "hist-list-bins":
            # the content of a bin is a list (whose first item is of the selected type)
            return (lena.structures.histogram([0, 1, 2], [[1 + j, 2], [3, 4]]), {"plot": {"name": "b"}})
        if kind == "hist-float-ctx-bins":
            # bins with context: the same Python type (tuple) as selected bins with context
            return (lena.structures.histogram([0, 1, 2], [(0.5 + j, {"cell": {"c": 1}}), (1.5, {"cell": {"c": 1}})]),
                    {"plot": {"name": "b"}})
        if kind == "graph":
            return a_graph(j)
        return common_b(kind, j, w.fs)


class EIterateBins(El):
    name = "IterateBins"
    a_kinds = ["hist-of-hists", "hist-of-hists-ctx"]
    b_kinds = COMMON_B + ["str", "hist-scalar-bins", "hist-scalar-bins-ctx", "graph", "hist-scalar-ctx-bins",
                          "hist-bins-are-lists-of-hists"]

    def build(self, o, w):
        return lena.structures.IterateBins()

    def make_a(self, kind, i, w):
        if kind == "hist-of-hists":
            return hist_of_hists(i)
        return (hist_of_hists(i), {"variable": {"name": "x"}, "plot": {"name": "a%d" % i}})

    def make_b(self, kind, j, w):
        if kind == "str":
            return "s%d" % j
        if kind == "hist-scalar-bins":
            return hist1(j)
        if kind == "hist-scalar-bins-ctx":
            return (hist1(j), {"variable": {"name": "x"}})
        if kind == "hist-scalar-ctx-bins":
            return (lena.structures.histogram([0, 1, 2], [(j, {"cell": {"c": 1}}), (5, {"cell": {"c": 1}})]),
                    {"plot": {"name": "b"}})
        if kind == "hist-bins-are-lists-of-hists":
            return (lena.structures.histogram([0, 1, 2], [[hist1(j), hist1(j + 1)], [hist1(2)]]),
                    {"plot": {"name": "b"}})
        if kind == "graph":
            return (a_graph(j), {})
        return common_b(kind, j, w.fs)


def is_int_data(value):
    d = lena.flow.get_data(value)
    return isinstance(d, int) and not isinstance(d, bool)


def plus_one(value):
    data, context = lena.flow.get_data_context(value)
    if context:
        context["runif"] = True
        return (data + 1, context)
    return data + 1


class Enumerate(object):
    """run element whose output depends on how its input flow is cut: (index in this run, value)"""

    def run(self, flow):
        for i, v in enumerate(flow):
            data, context = lena.flow.get_data_context(v)
            if context:
                yield ((i, data), context)
            else:
                yield (i, data)


class ERunIf(El):
    name = "RunIf"
    a_kinds = ["int", "int-ctx"]
    b_kinds = ["float", "tuple", "foreign", "none", "list", "pair-foreign", "str", "float-ctx", "hist"]

    def options(self, tape):
        return {"n": 1 + tape.draw(2, "seqlen"), "selector": tape.choice(["callable", "type"], "selector"),
                "inner": tape.choice(["elementwise", "enumerating"], "inner")}

    def build(self, o, w):
        sel = is_int_data if o["selector"] == "callable" else int
        inner = [plus_one] * o["n"]
        if o["inner"] == "enumerating":
            inner.append(Enumerate())
        return lena.flow.RunIf(sel, *inner)

    def make_a(self, kind, i, w):
        if kind == "int":
            return 10 + i
        return (10 + i, {"plot": {"name": "a%d" % i}})

    def make_b(self, kind, j, w):
        if kind == "str":
            return "s%d" % j
        if kind == "float-ctx":
            return (0.5 + j, {"plot": {"name": "b"}, "l": [j]})
        if kind == "hist":
            return (hist1(j), {})
        return common_b(kind, j, w.fs)


def keep_even_hundreds(value):
    data = value[0] if isinstance(value, tuple) else value
    return (data // 100) % 2 == 0


class EMapGroup(El):
    name = "MapGroup"
    a_kinds = ["group2", "group1", "group3"]
    b_kinds = COMMON_B + ["str", "iterable-without-group", "group-key-scalar-data", "hist-ctx"]

    def options(self, tape):
        # the mapped sequence may yield nothing at all for some groups (a filter inside)
        return {"n": 1 + tape.draw(2, "seqlen"), "filter": tape.chance(1, 3, "sequence-yields-nothing-for-some-groups")}

    def build(self, o, w):
        els = [plus_one] * o["n"]
        if o.get("filter"):
            els = [lena.flow.Filter(keep_even_hundreds)] + els
        return lena.flow.MapGroup(*els, map_scalars=False)

    def make_a(self, kind, i, w):
        n = {"group1": 1, "group2": 2, "group3": 3}[kind]
        return ([100 * i + k for k in range(n)],
                {"group": [{"item": {"k": k}, "common": 1} for k in range(n)], "common": 1})

    def make_b(self, kind, j, w):
        if kind == "str":
            return "s%d" % j
        if kind == "iterable-without-group":
            return ([j, j + 1], {"nogroup": [1, 2]})
        if kind == "group-key-scalar-data":
            return (j, {"group": [{"a": 1}]})
        if kind == "hist-ctx":
            return (hist1(j), {"plot": {"name": "b"}})
        return common_b(kind, j, w.fs)


ELEMENTS = [EToCSV(), EWrite(), ERender(), ELatex(), EPng(), EHistToGraph(), EMapBins(), EIterateBins(),
            ERunIf(), EMapGroup()]


# --------------------------------------------------------------------------

class World(object):
    pass


def gen_scenario(tape):
    sc = Spec()
    sc.el = tape.choice(ELEMENTS, "element")
    sc.opts = sc.el.options(tape)
    na = tape.draw(5, "nA")
    nb = tape.draw(7, "nB")
    sc.a = [(tape.choice(sc.el.a_kinds, "a-kind"), i) for i in range(na)]
    sc.b = [(tape.choice(sc.el.b_kinds, "b-kind"), j) for j in range(nb)]
    sc.plan = [tape.choice([None, 0, 1, 2, 3], "finish-after") for _ in range(na)]
    # a child process may fail (non-zero return code, nothing written); the same plan is used
    # for the run on A alone and for every merge schedule
    sc.failplan = [tape.chance(1, 6, "child-fails") for _ in range(na)]
    nsched = 4 if _TIER[0] == "quick" else 12
    sc.schedules = []
    for _ in range(nsched if (na and nb) else 1):
        # True = next from A, False = next from B
        sc.schedules.append(tape.shuffle_merge([("a", i) for i in range(na)],
                                               [("b", j) for j in range(nb)], "merge"))
    return sc


def execute(sc, order, res, count_faults=False):
    """Run the element on the values named by *order* on a fresh disk.
    Returns a World with outputs, logs and the value objects."""
    w = World()
    w.opts = sc.opts
    log = res.log
    w.fs = SimFS(log=log, clock=Clock())
    w.template_loads = []
    plan = list(sc.plan)

    def planner(tool, n):
        if tool != "pdflatex":
            return None
        k = plan[n] if n < len(plan) else None
        if count_faults:
            res.fault("converter-finishes-at-communicate" if k is None else "converter-finishes-after-k-polls")
        return k
    failplan = list(getattr(sc, "failplan", []))

    def failer(tool, n):
        bad = n < len(failplan) and bool(failplan[n])
        if bad and count_faults:
            res.fault("child-process-fails")
        return bad
    w.sub = SimSubprocess(w.fs, log=log, plan=planner, fail_plan=failer)
    install(w.fs, w.sub)
    w.fs.poke("out/.keep", "")
    sc.el.prepare(w, sc.a)
    w.image0 = w.fs.image()
    w.aobj = {}
    w.bobj = {}
    flow = []
    for which, k in order:
        if which == "a":
            kind = dict((i, kd) for kd, i in sc.a)[k]
            v = sc.el.make_a(kind, k, w)
            w.aobj[k] = v
        else:
            kind = dict((j, kd) for kd, j in sc.b)[k]
            v = sc.el.make_b(kind, k, w)
            w.bobj[k] = v
        flow.append(v)
    w.bsnap = dict((k, canon(v)) for k, v in w.bobj.items())
    w.flow = flow
    el = sc.el.build(sc.opts, w)
    op0 = len(w.fs.oplog)
    w.exc = None
    w.polls_by_unselected = 0
    try:
        with contextlib.redirect_stdout(io.StringIO()):
            w.out = list(el.run(iter(flow)))
    except Exception as e:  # noqa: BLE001
        if exception_origin(e) != "lena":
            raise
        w.exc = e
        w.out = None
    w.ops = [(op, path, nbytes) for op, path, nbytes, tick in w.fs.oplog[op0:]]
    w.launches = [(tool, cmd) for tool, cmd, tick in w.sub.launches]
    w.image = w.fs.image()
    return w


def run(tape):
    res = RunResult()
    log = res.log
    sc = gen_scenario(tape)
    name = sc.el.name
    res.say("%s(%s); A = %r; B = %r; %d merge schedules" % (
        name, ", ".join("%s=%r" % kv for kv in sorted(sc.opts.items())), [k for k, _ in sc.a],
        [k for k, _ in sc.b], len(sc.schedules)))
    log.ev("cfg", "c10", name, "|".join(k for k, _ in sc.a), "|".join(k for k, _ in sc.b),
           summarize(sorted(sc.opts.items())))
    res.probe("element-" + name)
    if not sc.a:
        res.probe("A-empty")
    if not sc.b:
        res.probe("B-empty")
    if sc.a and sc.b:
        res.probe("A-and-B")
        res.nontrivial = True
    for kd, _ in sc.b:
        if kd.startswith("nondict"):
            res.fault("non-dict-subcontext")
        if "false" in kd:
            res.fault("disabling-context")

    # ---- the run on A alone
    alone = execute(sc, [("a", i) for _, i in sc.a], res)
    log.ev("op", "alone", len(sc.a))
    if alone.exc is not None:
        # the selected values themselves make the element fail: nothing to compare
        res.probe("element-raises-on-selected-values-alone")
        res.say("the run on A alone raised %r: scenario not judged" % (alone.exc,))
        return res
    alone_out = [canon(v) for v in alone.out]
    if alone.ops:
        res.probe("disk-written" if any(o[0] in ("open-w", "child-write", "makedirs") for o in alone.ops)
                  else "disk-read")
    if alone.launches:
        res.probe("process-launched")
    if alone.template_loads:
        res.probe("template-loaded")

    for s, order in enumerate(sc.schedules):
        log.ev("op", "merged", "".join("A" if wch == "a" else "b" for wch, _ in order), s)
        w = execute(sc, order, res, count_faults=(s == 0))
        res.say("schedule %d: %s" % (s, "".join("A" if wch == "a" else "b" for wch, _ in order)))
        seq = "".join("A" if wch == "a" else "b" for wch, _ in order)
        if "AbA" in seq.replace("bb", "b").replace("bb", "b"):
            res.probe("unselected-between-two-selected")
        if w.exc is not None:
            culprit = "interleaving"
            for kd, j in sc.b:
                solo = execute(sc, [("b", j)], res)
                if solo.exc is not None and type(solo.exc) is type(w.exc):
                    culprit = kd
                    break
            res.viol("C10:%s:unselected[%s]:raises-%s@%s" % (name, culprit, type(w.exc).__name__,
                                                            exception_site(w.exc)),
                     "with unselected values interleaved the element raised %r; on the selected "
                     "values alone it does not" % (w.exc,))
            return res
        exp_b = [k for wch, k in order if wch == "b"]
        kinds = dict((j, kd) for kd, j in sc.b)
        # 1. identity, order, no mutation: walk the output with a pointer into the expected
        #    sequence of unselected objects (None and small numbers are shared objects, so
        #    identity alone cannot attribute an output to one of them)
        ptr = 0
        rest = []
        for v in w.out:
            if ptr < len(exp_b) and v is w.bobj[exp_b[ptr]]:
                ptr += 1
            else:
                rest.append(v)
        if ptr < len(exp_b):
            k = exp_b[ptr]
            present = any(v is w.bobj[k] for v in w.out)
            if present:
                res.viol("C10:%s:unselected-order-changed" % name,
                         "unselected value %r (%s) came out, but not in its original position among "
                         "the unselected values; output: %r" % (summarize(canon(w.bobj[k])), kinds[k],
                                                                summarize([canon(v) for v in w.out])))
            else:
                res.viol("C10:%s:unselected[%s]:not-same-object" % (name, kinds[k]),
                         "unselected value %r (%s) did not come out as the same object; output: %r"
                         % (summarize(canon(w.bobj[k])), kinds[k], summarize([canon(v) for v in w.out])))
            return res
        for k, v in w.bobj.items():
            if canon(v) != w.bsnap[k]:
                res.viol("C10:%s:unselected[%s]:mutated" % (name, kinds[k]),
                         "unselected value was %r before the run and is %r after it"
                         % (summarize(w.bsnap[k]), summarize(canon(v))))
                return res
        # 2. unselected values cause no access
        if not sc.a and (w.ops or w.launches or w.template_loads):
            res.viol("C10:%s:unselected-values-touch-the-file-system" % name,
                     "no value of the flow is selected, yet the element made these accesses: %r"
                     % (summarize((w.ops + w.launches + w.template_loads)[:4]),))
            return res
        if sorted(w.ops) != sorted(alone.ops) or sorted(w.launches) != sorted(alone.launches) \
                or sorted(w.template_loads) != sorted(alone.template_loads):
            extra = [o for o in w.ops if o not in alone.ops] or \
                    [l for l in w.launches if l not in alone.launches] or \
                    [t for t in w.template_loads if t not in alone.template_loads] or ["(fewer accesses)"]
            res.viol("C10:%s:unselected-values-change-file-system-access" % name,
                     "with unselected values interleaved the element made accesses it does not make "
                     "on the selected values alone: %r" % (summarize(extra[:4]),))
            return res
        # 3. what is produced for A does not depend on B
        rest_c = [canon(v) for v in rest]
        same = (sorted(map(repr, rest_c)) == sorted(map(repr, alone_out))) if sc.el.multiset \
            else rest_c == alone_out
        if not same:
            res.viol("C10:%s:selected-results-depend-on-unselected" % name,
                     "results for the selected values with unselected ones interleaved: %r; alone: %r"
                     % (summarize(rest_c), summarize(alone_out)))
            return res
        if w.image != alone.image:
            res.viol("C10:%s:disk-depends-on-unselected" % name,
                     "the final disk image differs from the one of the run on the selected values alone")
            return res
        if sc.el.multiset and w.sub.probe_finished_between_polls and len(order) > len(sc.a):
            res.probe("poll-triggered-by-unselected-value")
    return res
