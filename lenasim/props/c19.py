"""C19 - output files match the current data; nothing unchanged is redone.

Histories of runs of the documented output chain
    ToCSV, MakeFilename, Write, RenderLaTeX, Write, LaTeXToPDF, PDFToPNG
(real code end to end) over 1-3 plots on a simulated disk with a simulated
clock and in-process, content-addressed fake converters whose completion
instants the simulator draws.  Between runs the data of each plot and the
template are kept or changed and any subset of the csv / tex / pdf / png
files is deleted.  After every run the disk, the yielded contexts and the
operation / launch logs are checked stage by stage by recomputation from
the current inputs.  DESIGN.md section 3, C19.
"""
import copy
import io
import contextlib
import posixpath

import jinja2

import lena.core
import lena.meta
import lena.output
import lena.output.write as write_mod
import lena.output.latex_to_pdf as latex_mod
import lena.output.pdf_to_png as png_mod
import lena.output.render_latex as render_mod
import lena.structures

from ..kernel import RunResult, summarize, exception_origin, exception_site
from ..seams.fs import SimTempfile, SimFS, SimOS, Clock
from ..seams.proc import SimSubprocess, pdf_of, png_of, INPUT_RE

PROPERTY = "C19"
LEVEL = "fault_enumeration"
SWEEP = True
ABSTRACT_WIDTH = 3
N_RUNS = {"quick": 40000, "thorough": 48000}
RULE = ("each run draws 1-3 plots, the options of the chain (MakeFilename variants: plain, dirname, "
        "formatted dirname, prefix, suffix, stacked prefix and suffix, prefix from the context, a "
        "second non-overwriting and a second overwriting MakeFilename; each Write plain / "
        "existing_unchanged / overwrite; overwrite of LaTeXToPDF and of PDFToPNG) and a history of "
        "1-4 runs: before each run but the first every plot keeps or changes its data, the "
        "template is kept or changed, and any subset of the plot's csv / tex / pdf / png files is "
        "deleted (thorough: the deletion subsets are swept); inside a run the simulator draws when "
        "each fake pdflatex finishes relative to the poll() calls; two more runs without changes "
        "follow (fixpoint). A new pipeline object is built for every run. After each run: every "
        "yielded path exists at output_directory/dirname/filename.ext, csv / tex equal what the "
        "chain handed to Write from the current data and template, the pdf equals "
        "PDF[sha(tex on disk):sha(csv on disk)] and the png PNG[sha(pdf on disk)]; output.changed "
        "is true in the context a stage yields whenever it left a file whose content differs "
        "from the end of the previous run and stays true downstream; a plot whose inputs are "
        "unchanged and whose files are all present causes no write and no launch; names follow "
        "the MakeFilename rules. One scenario in four is the grouped variant: GroupBy, group_plots, "
        "MapGroup(ToCSV, MakeFilename, Write) write one csv per member and one tex / pdf / png per "
        "group of two plots; the members' output.changed must be combined into the group's. non-trivial = at least two runs with a change or a deletion; "
        "distinct = distinct abstracted event-kind sequences."
        " Since the seeded rounds also: more MakeFilename variants (names from the context, empty"
        " dirname / fileext, names built from the existing name, alternative names, optional"
        " dirname, dirname set by its own element or derived from the name just set, names with a"
        " directory part), MakeFilename in front of ToCSV, a SetContext in front of the chain, the"
        " same pipeline object re-used for the whole history with RenderLaTeX's default"
        " environment, template changes that only touch the final line terminator, image format"
        " jpeg, failing converters, 100 clock ticks per second, both orders of Write and"
        " group_plots in the grouped variant, and taint tracking past the known finding."
        " Also: plot names ending in t, e or x, a dirname with a .. component, five and six"
        " plots, a per-plot ToCSV option that comes and goes.")
REAL = ["lena.flow.GroupBy, lena.flow.group_plots, lena.flow.MapGroup (grouped variant)", "lena.output.ToCSV", "lena.output.MakeFilename", "lena.output.Write", "lena.output.RenderLaTeX",
        "lena.output.LaTeXToPDF", "lena.output.PDFToPNG", "lena.core.Sequence", "lena.structures.histogram",
        "jinja2 (template loading through a FunctionLoader on the simulated disk, rendering)"]
STUB = ["SimFS / SimOS / open (disk, mtimes)", "simulated clock (ticks at every mutation, jumps "
        "between runs)", "SimSubprocess / SimProc (fake pdflatex and pdftoppm, content-addressed, "
        "completion instants drawn)", "taps after every stage (record the yielded context per plot)",
        "history driver (data / template changes, deletions)"]
ASSUMPTIONS = [
    "the fake pdflatex reads the tex file and every file named in an \\input{} line of it at its "
    "completion instant and writes PDF[sha(tex):sha(data)]; pdftoppm writes PNG[sha(pdf)]",
    "a file re-created with identical content is not a change; regeneration of a derived artefact "
    "is demanded through content freshness, and redundant work is flagged only for a plot whose "
    "inputs are unchanged and whose files all existed at the start of the run",
    "with existing_unchanged=True only histories that keep the user's promise are generated (an "
    "existing file is current)",
    "clock ties, backward clock jumps, failing converters and runs abandoned by their consumer are "
    "explored only in beyond_quantifier mode and never produce a verdict",
    "the signature of a violating history is its earliest violated stage invariant; the history is "
    "not judged after it - except for the known root cause (Write creating a missing file does not "
    "set output.changed): it is recorded, the plot is marked, and a later stage of a marked plot "
    "that is stale although it was explicitly told changed=False is counted as a consequence, not "
    "as a new violation; the mark is removed when the plot's pdf is fresh again",
]
FAULT_KINDS = ["delete-csv", "delete-tex", "delete-pdf", "delete-png", "data-changed", "template-changed",
               "converter-finishes-after-k-polls", "converter-finishes-at-communicate",
               "run-abandoned-by-consumer", "template-line-terminator-only-change"]
EXPECTED_PROBES = ["template-with-non-ascii-characters", "csv-deleted-and-data-changed", "tex-deleted-and-template-changed", "pdf-deleted-only",
                   "png-deleted-only", "unchanged-run-no-work", "converter-finished-between-polls",
                   "completion-order-differs-from-launch-order", "existing_unchanged", "write-overwrite",
                   "second-makefilename-not-overwriting", "second-makefilename-overwriting",
                   "prefix-and-suffix", "fixpoint-reached", "mtime-comparison-used",
                   "changed-plot-next-to-unchanged-plot", "grouped-variant", "group-with-one-changed-member",
                   "pipeline-object-reused", "default-jinja-environment",
                   "stale-as-consequence-of-known-finding", "static-context",
                   "members-written-before-grouping", "image-format-not-png", "makefilename-before-tocsv"]

_TIER = ["quick"]


def set_tier(t):
    _TIER[0] = t


class Spec(object):
    pass


OUTDIR = "out"
TEMPLATE_PATH = "templates/plot.tex"
KINDS = ["csv", "tex", "pdf", "png"]
MKF = ["plain", "dir", "dirfmt", "prefix", "suffix", "presuf", "ctxprefix", "second-noow", "second-ow",
       "ctxname", "ctxdir-empty", "ctxext-empty", "mkf-ext", "suffix-scaled", "suffix-ow-scaled", "prefix-scaled", "dir-optional", "prefix-alt", "dir-then-name",
       "name-with-dir", "dir-from-name", "dir-dotdot"]


NONASCII = [False]   # set per history: the template holds characters outside ASCII


def _title():
    # byte length and character count of the rendered text differ
    return " \u00b5-\u00c9v\u00e9nement \u0434" if NONASCII[0] else ""


def template_text(version, newline=False):
    # jinja2 drops a single trailing newline by default: two in the template give one in the text
    return ("%% template" + _title() + " v%d\n"
            "\\begin{plot}\n"
            "\\input{\\VAR{ output.filepath }}\n"
            "%% \\VAR{ plot.name }\n"
            "\\end{plot}") % version + ("\n\n" if newline else "")


def expected_tex(version, csvpath, name, newline=False):
    return ("%% template" + _title() + " v%d\n"
            "\\begin{plot}\n"
            "\\input{%s}\n"
            "%% %s\n"
            "\\end{plot}") % (version, csvpath, name) + ("\n" if newline else "")


NAME_TAIL = [""]


def pname(p):
    return "p%d%s" % (p, NAME_TAIL[0])


def make_filenames(variant):
    MF = lena.output.MakeFilename
    if variant in ("plain", "ctxprefix", "ctxname"):
        return [MF("{{plot.name}}")]
    if variant == "ctxdir-empty":
        return [MF("{{plot.name}}", dirname="sub")]
    if variant in ("ctxext-empty", "mkf-ext"):
        return [MF("{{plot.name}}", fileext="dat")]
    if variant == "dir":
        return [MF("{{plot.name}}", dirname="sub")]
    if variant == "dirfmt":
        return [MF("{{plot.name}}", dirname="d_{{plot.name}}")]
    if variant == "prefix":
        return [MF(prefix="pre_"), MF("{{plot.name}}")]
    if variant == "suffix":
        return [MF(suffix="_log"), MF("{{plot.name}}")]
    if variant == "presuf":
        return [MF(prefix="a_"), MF(prefix="b_", suffix="_s"), MF("{{plot.name}}")]
    if variant == "second-noow":
        return [MF("{{plot.name}}"), MF("other_{{plot.name}}", dirname="zzz")]
    if variant == "second-ow":
        return [MF(prefix="pre_"), MF("{{plot.name}}"), MF("ow_{{plot.name}}", overwrite=True)]
    if variant == "dir-then-name":
        # the directory is set by an element of its own, before anything else touched context.output
        return [MF(dirname="sub"), MF("{{plot.name}}")]
    if variant == "prefix-alt":
        # a chain of alternative names: the first cannot be formatted, the pending prefix must
        # still be there for the second
        return [MF(prefix="pre_"), MF("combined_{{nokey.x}}"), MF("{{plot.name}}")]
    if variant == "dir-optional":
        # a key that cannot be formatted for a value is not set for that value
        return [MF(dirname="d_{{extra.dir}}"), MF("{{plot.name}}")]
    if variant == "name-with-dir":
        # the documented "{{variable.type}}/{{variable.name}}" pattern: a name with a directory part
        return [MF("grp/{{plot.name}}")]
    if variant == "dir-dotdot":
        # a directory given relative to a sibling
        return [MF("{{plot.name}}", dirname="y2024/../common")]
    if variant == "dir-from-name":
        # one element sets the name and a directory that refers to the name it has just set
        return [MF("{{plot.name}}", dirname="{{output.filename}}")]
    if variant == "suffix-ow-scaled":
        # the name itself comes from an overwriting element: the pending suffix is used up all the same
        return [MF(suffix="_log"), MF("{{plot.name}}", overwrite=True), MF("{{output.filename}}_scaled", overwrite=True)]
    if variant == "suffix-scaled":
        # the pattern of the group_plots documentation: a later name built from the existing one
        return [MF(suffix="_log"), MF("{{plot.name}}"), MF("{{output.filename}}_scaled", overwrite=True)]
    if variant == "prefix-scaled":
        return [MF(prefix="pre_"), MF("{{plot.name}}"), MF("{{output.filename}}_scaled", overwrite=True)]
    raise ValueError(variant)


def expected_name(variant, name):
    """(dirname, filename) the MakeFilename rules give"""
    if variant in ("plain", "ctxdir-empty", "ctxext-empty", "mkf-ext"):
        return "", name
    if variant == "ctxname":
        return "", "given_" + name
    if variant == "ctxprefix":
        return "", "c_" + name
    if variant == "dir":
        return "sub", name
    if variant == "dirfmt":
        return "d_" + name, name
    if variant == "prefix":
        return "", "pre_" + name
    if variant == "suffix":
        return "", name + "_log"
    if variant == "presuf":
        return "", "b_a_" + name + "_s"
    if variant == "second-noow":
        return "zzz", name
    if variant == "second-ow":
        return "", "ow_" + name
    if variant == "dir-then-name":
        return "sub", name
    if variant == "prefix-alt":
        return "", "pre_" + name
    if variant == "dir-optional":
        # only even plots carry extra.dir
        return ("d_a" if int(name[1]) % 2 == 0 else ""), name
    if variant == "name-with-dir":
        return "", "grp/" + name
    if variant == "dir-dotdot":
        return "y2024/../common", name
    if variant == "dir-from-name":
        return name, name
    if variant in ("suffix-scaled", "suffix-ow-scaled"):
        return "", name + "_log_scaled"
    if variant == "prefix-scaled":
        return "", "pre_" + name + "_scaled"
    raise ValueError(variant)


def make_loader(fs, searchpath):
    """jinja2 loader on the simulated disk; like FileSystemLoader it tells jinja2 whether the
    loaded source is still up to date (compares the modification time)"""
    def load(name):
        path = fs.norm(posixpath.join(searchpath, name))
        try:
            with fs.open(path) as f:
                src = f.read()
        except FileNotFoundError:
            return None
        mtime = fs.mtime.get(path)
        return src, path, (lambda: fs.mtime.get(path) == mtime)
    return jinja2.FunctionLoader(load)


class JinjaFacade(object):
    """the `jinja2` module as seen by lena.output.render_latex: FileSystemLoader reads SimFS"""

    def __init__(self, fs):
        self._fs = fs

    def FileSystemLoader(self, searchpath, *args, **kwargs):
        return make_loader(self._fs, searchpath)

    def __getattr__(self, name):
        return getattr(jinja2, name)


class Tap(object):
    """transparent callable after a stage: records data and context.output per plot"""

    def __init__(self, stage, rec, log):
        self.stage = stage
        self.rec = rec
        self.log = log

    def __call__(self, value):
        if isinstance(value, tuple) and len(value) == 2 and isinstance(value[1], dict):
            name = value[1].get("plot", {}).get("name")
            out = copy.deepcopy(value[1].get("output"))
            self.rec.setdefault(self.stage, []).append((name, value[0], out))
            self.log.ev("tap", self.stage, name, summarize(out.get("changed", "<absent>") if out else None))
        return value


def gen_scenario(tape):
    sc = Spec()
    sc.nplots = 1 + tape.draw(3, "nplots")
    if tape.chance(1, 12, "many-plots"):
        sc.nplots = 5 + tape.draw(2, "nplots-many")
    sc.mkf = tape.choice(MKF, "makefilename")
    # plot names p0, p1, ... or names that end in a letter of "tex" (p0x, p1x, ...)
    NAME_TAIL[0] = tape.choice(["", "", "x", "e", "t"], "name-ending")
    sc.name_tail = NAME_TAIL[0]
    NONASCII[0] = sc.nonascii = tape.chance(1, 4, "template-with-non-ascii-characters")
    sc.w1 = tape.weighted([(6, "plain"), (1, "existing_unchanged"), (1, "overwrite")], "write1")
    sc.w2 = tape.weighted([(6, "plain"), (1, "existing_unchanged"), (1, "overwrite")], "write2")
    sc.ow_pdf = tape.chance(1, 8, "latex-overwrite")
    sc.ow_png = tape.chance(1, 8, "png-overwrite")
    sc.imgfmt = tape.choice(["png", "png", "jpeg"], "image-format")
    # MakeFilename in front of ToCSV (the value has no context.output yet) or behind it
    sc.mkf_first = tape.chance(1, 4, "makefilename-before-tocsv")
    sc.dup_override = (sc.mkf in ("plain", "dir", "dirfmt", "prefix", "suffix", "presuf") and not sc.mkf_first
                       and tape.chance(1, 4, "per-plot-tocsv-option"))
    sc.clock = tape.weighted([(12, "normal"), (1, "tie"), (1, "skew")], "clock")
    sc.fail = tape.chance(1, 16, "converter-failure-mode")
    sc.step = 1 + tape.draw(3, "tick-step")
    # the same pipeline object for every run of the history, or a new one per run
    sc.reuse = tape.chance(1, 3, "reuse-pipeline")
    # RenderLaTeX with its own default environment (template_dir) or with environment=
    sc.env = tape.choice(["environment-param", "template_dir"], "render-env")
    # the sequence has a (non-empty) static context
    sc.static = tape.chance(1, 3, "static-context")
    nruns = 1 + tape.draw(4, "nruns")
    sc.runs = []
    for r in range(nruns):
        run = Spec()
        run.jump = 1 + tape.draw(50, "clock-jump")
        run.template_change = r > 0 and tape.chance(1, 3, "template-change")
        # a change of the template that only adds or removes the final line terminator
        run.template_newline = r > 0 and tape.chance(1, 8, "template-trailing-newline-toggled")
        run.data_change = []
        run.delete = []
        for p in range(sc.nplots):
            run.data_change.append(r > 0 and tape.chance(1, 3, "data-change"))
            mask = 0
            if r > 0 and tape.draw(2, "delete-something"):
                mask = tape.draw(16, "delete-mask", sweep=True)
            run.delete.append(mask)
        # completion plan: per launch index, finish after k polls (0..3) or only at communicate
        run.plan = [tape.choice([None, 0, 1, 2, 3], "finish-after") for _ in range(sc.nplots)]
        run.failplan = [sc.fail and tape.chance(1, 3, "fail") for _ in range(sc.nplots)]
        # beyond the quantifier: the consumer abandons the run after k results
        run.interrupt = tape.draw(sc.nplots, "interrupt-after") if tape.chance(1, 12, "interrupt") else None
        sc.runs.append(run)
    return sc


class World(object):
    """disk, clock, seams and the model state of one scenario"""

    def __init__(self, sc, res):
        self.sc = sc
        self.res = res
        self.log = res.log
        step = 0 if sc.clock == "tie" else sc.step
        self.fs = SimFS(log=res.log, clock=Clock(), tick_draw=lambda: step)
        # a hundred ticks per second: files written within the same second have different
        # modification times, as on a real disk
        self.fs.ticks_per_second = 100
        self.simos = SimOS(self.fs)
        write_mod.os = self.simos
        write_mod.open = self.fs.open
        latex_mod.os = self.simos
        png_mod.os = self.simos
        for m in (write_mod, latex_mod, png_mod):
            # an element that makes a temporary file with the tempfile module stays on the simulated disk
            if hasattr(m, "tempfile"):
                m.tempfile = SimTempfile(self.fs, self.simos)
        self.template_version = 0
        self.template_newline = False
        self.data_version = [0] * sc.nplots
        self.fs.poke(TEMPLATE_PATH, template_text(0))
        self.prev = None           # disk image at the end of the previous run
        render_mod.jinja2 = JinjaFacade(self.fs)
        self.rec = {}
        self._seq = None
        # plots whose derived artefacts may be stale as a consequence of the known root cause
        self.tainted = set()

    def env(self):
        return jinja2.Environment(loader=make_loader(self.fs, "templates"), **lena.output.jinja_syntax_latex)

    def values(self):
        vals = []
        for p in range(self.sc.nplots):
            h = lena.structures.histogram([0, 1, 2], [1000 + self.data_version[p], 7 + p])
            ctx = {"plot": {"name": pname(p)}}
            if self.sc.mkf == "ctxprefix":
                ctx["output"] = {"prefix": "c_"}
            elif self.sc.mkf == "ctxname":
                ctx["output"] = {"filename": "given_" + pname(p)}
            elif self.sc.mkf == "ctxdir-empty":
                ctx["output"] = {"dirname": ""}
            elif self.sc.mkf == "ctxext-empty":
                ctx["output"] = {"fileext": ""}
            elif self.sc.mkf == "dir-optional" and p % 2 == 0:
                ctx["extra"] = {"dir": "a"}
            if getattr(self.sc, "dup_override", False) and p == 0 and self.data_version[0] % 2:
                # an option of ToCSV given for this plot only (and only for some versions of its data)
                ctx.setdefault("output", {})["duplicate_last_bin"] = False
            vals.append((h, ctx))
        return vals

    def pipeline(self, rec, sub):
        sc = self.sc
        latex_mod.subprocess = sub
        png_mod.subprocess = sub
        if getattr(sc, "reuse", False) and self._seq is not None:
            return self._seq

        def wopts(kind):
            # an option that is off is left to the element's default
            if kind == "plain":
                return {}
            return {kind: True}
        lkw = {"overwrite": True} if sc.ow_pdf else {}
        pkw = {"overwrite": True} if sc.ow_png else {}
        if getattr(sc, "imgfmt", "png") != "png":
            pkw["format"] = sc.imgfmt
        els = []
        if getattr(sc, "static", False):
            els.append(lena.meta.SetContext("static.note", "s"))
        if getattr(sc, "mkf_first", False):
            els += make_filenames(sc.mkf)
            els.append(lena.output.ToCSV())
        else:
            els.append(lena.output.ToCSV())
            els += make_filenames(sc.mkf)
        els += [Tap("mkf", rec, self.log),
                lena.output.Write(OUTDIR, verbose=False, **wopts(sc.w1)), Tap("w1", rec, self.log),
                (lena.output.RenderLaTeX("plot.tex", environment=self.env())
                 if getattr(sc, "env", "environment-param") == "environment-param"
                 else lena.output.RenderLaTeX("plot.tex", template_dir="templates")),
                Tap("render", rec, self.log),
                lena.output.Write(OUTDIR, verbose=False, **wopts(sc.w2)), Tap("w2", rec, self.log),
                lena.output.LaTeXToPDF(verbose=0, **lkw), Tap("pdf", rec, self.log),
                lena.output.PDFToPNG(verbose=False, **pkw), Tap("png", rec, self.log)]
        self._seq = lena.core.Sequence(*els)
        return self._seq

    def paths(self, p):
        d, f = expected_name(self.sc.mkf, pname(p))
        base = "/".join(x for x in (OUTDIR, d, f) if x)
        paths = dict((k, self.fs.norm(base + "." + k)) for k in KINDS)
        # the image file carries the extension of the chosen format; it is still called "png" here
        paths["png"] = self.fs.norm(base + "." + getattr(self.sc, "imgfmt", "png"))
        # an existing (even empty) file extension is not replaced; a missing one is set
        if self.sc.mkf == "ctxext-empty":
            paths["csv"] = self.fs.norm(base)
        elif self.sc.mkf == "mkf-ext":
            paths["csv"] = self.fs.norm(base + ".dat")
        return paths, base


def run(tape):
    res = RunResult()
    NAME_TAIL[0] = ""
    NONASCII[0] = False
    if tape.weighted([(3, "flat"), (1, "grouped")], "variant") == "grouped":
        from . import c19g
        return c19g.run_grouped(tape, res, World, write_mod, latex_mod, png_mod)
    sc = gen_scenario(tape)
    w = World(sc, res)
    log = res.log
    if sc.nonascii:
        res.probe("template-with-non-ascii-characters")
    judged = [sc.clock == "normal" and not sc.fail]
    why = ["clock-" + sc.clock if sc.clock != "normal" else "failing-converter"]
    res.say("%d plots, MakeFilename %s, Write#1 %s, Write#2 %s, LaTeXToPDF(overwrite=%s), "
            "PDFToPNG(overwrite=%s), RenderLaTeX via %s, %s, clock %s%s; %d runs + 2 unchanged runs"
            % (sc.nplots, sc.mkf, sc.w1, sc.w2, sc.ow_pdf, sc.ow_png, sc.env,
               "one pipeline object for all runs" if sc.reuse else "a new pipeline per run", sc.clock,
               ", failing converters" if sc.fail else "", len(sc.runs)))
    if sc.reuse:
        res.probe("pipeline-object-reused")
    if sc.env == "template_dir":
        res.probe("default-jinja-environment")
    if sc.static:
        res.probe("static-context")
    if sc.imgfmt != "png":
        res.probe("image-format-not-png")
    if sc.mkf_first:
        res.probe("makefilename-before-tocsv")
    log.ev("cfg", "c19", sc.nplots, sc.mkf, sc.w1, sc.w2, sc.ow_pdf, sc.ow_png, sc.clock)
    if sc.w1 == "existing_unchanged" or sc.w2 == "existing_unchanged":
        res.probe("existing_unchanged")
    if sc.w1 == "overwrite" or sc.w2 == "overwrite":
        res.probe("write-overwrite")
    if sc.mkf == "second-noow":
        res.probe("second-makefilename-not-overwriting")
    if sc.mkf == "second-ow":
        res.probe("second-makefilename-overwriting")
    if sc.mkf == "presuf":
        res.probe("prefix-and-suffix")

    stop = [False]

    def viol(sig, detail, fatal=True):
        # fatal=False: the known root cause (Write creating a missing file does not set
        # output.changed) - it is recorded, the plot is marked, and the history goes on
        if fatal:
            stop[0] = True
        if judged[0]:
            res.viol(sig, detail)
        else:
            key = "%s under %s" % (sig, why[0])
            res.beyond[key] = res.beyond.get(key, 0) + 1

    extra = []
    for _ in range(2):
        run_ = Spec()
        run_.jump = 5
        run_.template_change = False
        run_.template_newline = False
        run_.data_change = [False] * sc.nplots
        run_.delete = [0] * sc.nplots
        run_.plan = [None] * sc.nplots
        run_.failplan = [False] * sc.nplots
        run_.extra = True
        extra.append(run_)

    all_runs = list(sc.runs) + extra
    interesting = 0
    for r, spec in enumerate(all_runs):
        is_extra = getattr(spec, "extra", False)
        # ---- between runs: the clock moves, inputs change, files disappear
        if sc.clock == "skew" and r > 0:
            w.fs.clock.now -= spec.jump
        else:
            w.fs.clock.tick(spec.jump)
        deleted = [set() for _ in range(sc.nplots)]
        changed_data = list(spec.data_change)
        tchange = spec.template_change or getattr(spec, "template_newline", False)
        # existing_unchanged is the user's promise that existing files are current
        for p in range(sc.nplots):
            mask = spec.delete[p]
            for k, kind in enumerate(KINDS):
                if mask & (1 << k):
                    deleted[p].add(kind)
            if sc.w1 == "existing_unchanged" and changed_data[p]:
                deleted[p].add("csv")
            if sc.w2 == "existing_unchanged" and (tchange or "csv" in deleted[p] and False):
                deleted[p].add("tex")
        if tchange:
            if spec.template_change:
                w.template_version += 1
            if getattr(spec, "template_newline", False):
                w.template_newline = not w.template_newline
                res.fault("template-line-terminator-only-change")
            w.fs.poke(TEMPLATE_PATH, template_text(w.template_version, w.template_newline))
            res.fault("template-changed")
        for p in range(sc.nplots):
            if changed_data[p]:
                w.data_version[p] += 1
                res.fault("data-changed")
            paths, _ = w.paths(p)
            for kind in sorted(deleted[p]):
                if w.fs.peek(paths[kind]) is not None:
                    w.fs.delete(paths[kind])
                    res.fault("delete-" + kind)
                else:
                    deleted[p].discard(kind)
            if "csv" in deleted[p] and changed_data[p]:
                res.probe("csv-deleted-and-data-changed")
            if "tex" in deleted[p] and tchange:
                res.probe("tex-deleted-and-template-changed")
            if deleted[p] == set(["pdf"]):
                res.probe("pdf-deleted-only")
            if deleted[p] == set(["png"]):
                res.probe("png-deleted-only")
        if r > 0 and (tchange or any(changed_data) or any(deleted)):
            interesting += 1
        if interesting and r >= 1:
            res.nontrivial = True
        res.say("run %d: data changed %r, template changed %r, deleted %r%s" % (
            r, [int(x) for x in changed_data], bool(tchange), [sorted(d) for d in deleted],
            " (unchanged extra run)" if is_extra else ""))
        log.ev("op", "run", r, tuple(int(x) for x in changed_data), bool(tchange),
               tuple(tuple(sorted(d)) for d in deleted))
        start_image = w.fs.image()
        oplog_start = len(w.fs.oplog)

        # ---- the run
        plan = list(spec.plan)
        failplan = list(spec.failplan)

        def planner(tool, n, plan=plan):
            if tool != "pdflatex":
                return None
            k = plan[n] if n < len(plan) else None
            if k is None:
                res.fault("converter-finishes-at-communicate")
            else:
                res.fault("converter-finishes-after-k-polls")
            return k

        def failer(tool, n, failplan=failplan):
            return tool == "pdflatex" and n < len(failplan) and bool(failplan[n])

        sub = SimSubprocess(w.fs, log=log, plan=planner, fail_plan=failer if sc.fail else None, stamp=True)
        rec = w.rec
        rec.clear()
        seq = w.pipeline(rec, sub)
        interrupt = getattr(spec, "interrupt", None)
        try:
            with contextlib.redirect_stdout(io.StringIO()):
                if interrupt is None:
                    out = list(seq.run(iter(w.values())))
                else:
                    gen = seq.run(iter(w.values()))
                    out = []
                    for _ in range(interrupt):
                        try:
                            out.append(next(gen))
                        except StopIteration:
                            break
                    gen.close()
        except Exception as e:  # noqa: BLE001
            if exception_origin(e) != "lena":
                raise
            viol("C19:run:unexpected-exception:%s@%s" % (type(e).__name__, exception_site(e)), repr(e)[:300])
            break
        if sub.probe_finished_between_polls:
            res.probe("converter-finished-between-polls", sub.probe_finished_between_polls)
        res.ticks = w.fs.clock.now - 1000
        if any(e[0] == "getmtime" for e in w.fs.oplog[oplog_start:]):
            res.probe("mtime-comparison-used")
        order = [n for n, _, _ in rec.get("pdf", [])]
        launched = [posix_base(c[-1]) for t, c, _ in sub.launches if t == "pdflatex"]
        if len(order) == sc.nplots and order != sorted(order):
            res.probe("completion-order-differs-from-launch-order")

        if interrupt is not None:
            # nothing is demanded of an abandoned run; what later runs make of the half-done
            # work is explored but never a verdict (the quantifier has no interrupted runs)
            res.fault("run-abandoned-by-consumer")
            res.say("run %d abandoned by the consumer after %d results (beyond the quantifier: the "
                    "history is not judged from here on)" % (r, len(out)))
            log.ev("op", "interrupt", r, len(out))
            if judged[0]:
                judged[0] = False
                why[0] = "a-run-abandoned-by-its-consumer"
            w.prev = w.fs.image()
            continue
        check_run(w, sc, res, r, spec, rec, out, sub, start_image, oplog_start, deleted, changed_data,
                  tchange, viol, is_extra)
        w.prev = w.fs.image()
        if stop[0]:
            break
    return res


def posix_base(path):
    return path.rsplit("/", 1)[-1]


def tap_of(rec, stage, name):
    """list of (data, output context) recorded for plot *name* after *stage*"""
    return [(d, o) for n, d, o in rec.get(stage, []) if n == name]


def check_run(w, sc, res, r, spec, rec, out, sub, start_image, oplog_start, deleted, changed_data, tchange,
              viol, is_extra):
    fs = w.fs
    now = fs.image()
    prev = w.prev
    names = [pname(p) for p in range(sc.nplots)]
    ops = fs.oplog[oplog_start:]
    writes = {}          # path -> number of truncating opens / child writes in this run
    for op, path, nbytes, tick in ops:
        if op in ("open-w", "open-a", "open-x", "child-write"):
            writes[path] = writes.get(path, 0) + 1
    launches = {}        # (tool, normalised source path) -> count
    for tool, cmd, tick in sub.launches:
        src = cmd[-1] if tool == "pdflatex" else cmd[1]
        key = (tool, fs.norm(src))
        launches[key] = launches.get(key, 0) + 1

    P = [w.paths(p)[0] for p in range(sc.nplots)]

    def existed(p, kind):
        return P[p][kind] in start_image

    def content_changed(p, kind):
        """content differs from the end of the previous run (None on the first run)"""
        if prev is None:
            return None
        path = P[p][kind]
        if path not in prev:
            return None
        return now.get(path) != prev[path]

    def truthy_changed(outc):
        return bool(outc) and outc.get("changed") is True

    # ---- every plot came out exactly once, as its png path
    got = {}
    for v in out:
        if isinstance(v, tuple) and len(v) == 2 and isinstance(v[1], dict):
            n = v[1].get("plot", {}).get("name")
            got.setdefault(n, []).append(v)
    for p, name in enumerate(names):
        vs = got.get(name, [])
        if len(vs) != 1:
            viol("C19:pipeline:plot-%s" % ("lost" if not vs else "duplicated"),
                 "run %d yielded %d values for plot %s" % (r, len(vs), name))
            return

    # ---- stage 0: names (MakeFilename)
    for p, name in enumerate(names):
        t = tap_of(rec, "mkf", name)
        ed, ef = expected_name(sc.mkf, name)
        if len(t) != 1:
            viol("C19:MakeFilename:value-count", "plot %s passed MakeFilename %d times" % (name, len(t)))
            return
        outc = t[0][1] or {}
        if outc.get("filename") != ef or outc.get("dirname", "") != ed:
            viol("C19:MakeFilename:%s:wrong-name" % sc.mkf,
                 "plot %s got dirname %r filename %r; the rules give %r / %r"
                 % (name, outc.get("dirname", ""), outc.get("filename"), ed, ef))
            return
        eext = {"ctxext-empty": "", "mkf-ext": "dat"}.get(sc.mkf, "<absent>")
        if outc.get("fileext", "<absent>") != eext:
            viol("C19:MakeFilename:%s:wrong-name" % sc.mkf,
                 "plot %s got fileext %r; the rules give %r" % (name, outc.get("fileext", "<absent>"), eext))
            return
        if "prefix" in outc or "suffix" in outc:
            viol("C19:MakeFilename:%s:prefix-suffix-not-consumed" % sc.mkf,
                 "after the file name was made context.output still holds %r" % (summarize(outc),))
            return

    stages = [("w1", "Write[csv]", "csv"), ("w2", "Write[tex]", "tex"), ("pdf", "LaTeXToPDF", "pdf"),
              ("png", "PDFToPNG", "png")]
    prev_changed = [False] * sc.nplots
    for si, (stage, label, kind) in enumerate(stages):
        for p, name in enumerate(names):
            path = P[p][kind]
            t = tap_of(rec, stage, name)
            if len(t) != 1:
                viol("C19:%s:value-count" % label, "plot %s left %s %d times in run %d" % (name, label, len(t), r))
                return
            data, outc = t[0]
            # 1. existence and place
            if not isinstance(data, str) or fs.norm(data) != path:
                viol("C19:%s:wrong-path" % label, "plot %s: %s yielded %r, expected %s"
                     % (name, label, summarize(data), path))
                return
            if path not in now:
                viol("C19:%s:file-missing" % label, "run %d: %s yielded %s but no such file exists"
                     % (r, label, path))
                return
            content = now[path].decode("utf-8")
            ex = "file-existed" if existed(p, kind) else "file-was-missing"
            # 2. freshness
            if kind == "csv":
                handed = tap_of(rec, "mkf", name)[0][0]
                if str(1000 + w.data_version[p]) not in handed:
                    viol("C19:ToCSV:stale-data", "the csv text does not contain the current bin content")
                    return
                fresh = content == handed
            elif kind == "tex":
                handed = tap_of(rec, "render", name)[0][0]
                exp = expected_tex(w.template_version, tap_of(rec, "w1", name)[0][0], name, w.template_newline)
                if handed != exp:
                    viol("C19:RenderLaTeX:stale-or-wrong-text",
                         "RenderLaTeX yielded %r; the current template renders to %r" % (handed, exp))
                    return
                fresh = content == handed
            elif kind == "pdf":
                tex = now[P[p]["tex"]].decode("utf-8")
                datas = []
                for nm in INPUT_RE.findall(tex):
                    d = now.get(fs.norm(nm.strip()))
                    datas.append(d if d is not None else b"<missing>")
                # the converter's output carries a serial number: compare what it was made from
                fresh = content.startswith(pdf_of(tex, datas) + "@")
            else:
                fresh = content == png_of(now[P[p]["pdf"]], getattr(sc, "imgfmt", "png"))
            if kind == "pdf" and fresh:
                w.tainted.discard(p)
            incoming = tap_of(rec, stages[si - 1][0], name)[0][1] if si else None
            if not fresh and p in w.tainted and kind in ("pdf", "png") and incoming is not None \
                    and incoming.get("changed") is False:
                # consequence of the known root cause: this stage was told that nothing changed
                res.probe("stale-as-consequence-of-known-finding")
                continue
            if not fresh:
                viol("C19:%s:%s:stale-content" % (label, ex),
                     "run %d, plot %s: %s on disk is not what the current inputs produce (data v%d, "
                     "template v%d; deleted before the run: %r; output context: %r)"
                     % (r, name, path, w.data_version[p], w.template_version, sorted(deleted[p]),
                        summarize(outc)))
                return
            # 3. changed is truthful and monotone
            cc = content_changed(p, kind)
            if cc and not truthy_changed(outc):
                sig = "C19:%s:%s:changed-not-set" % (label.split("[")[0], "new-file" if not existed(p, kind)
                                                     else "existing-file")
                root = sig == "C19:Write:new-file:changed-not-set"
                viol(sig,
                     "run %d, plot %s: %s left %s with content different from the previous run, but "
                     "context.output.changed is %r" % (r, name, label, path,
                                                      (outc or {}).get("changed", "<absent>")),
                     fatal=not root)
                if not root:
                    return
                w.tainted.add(p)
            if prev_changed[p] and not truthy_changed(outc):
                viol("C19:%s:changed-dropped" % label.split("[")[0],
                     "run %d, plot %s: output.changed was true before %s and is %r after it"
                     % (r, name, label, (outc or {}).get("changed", "<absent>")))
                return
            if truthy_changed(outc):
                prev_changed[p] = True

    # ---- 4. no redundant work, plot by plot
    any_input_changed = tchange or any(changed_data) or any(deleted)
    quiet_plots = 0
    for p, name in enumerate(names):
        unchanged = (not tchange and not changed_data[p] and not deleted[p] and prev is not None
                     and all(existed(p, k) for k in KINDS))
        if not unchanged:
            continue
        quiet_plots += 1
        chain_ow = [sc.w1 == "overwrite", sc.w2 == "overwrite", sc.ow_pdf, sc.ow_png]
        for si, (stage, label, kind) in enumerate(stages):
            if any(chain_ow[:si + 1]):
                break      # documented: overwrite redoes this stage and everything derived from it
            path = P[p][kind]
            n = writes.get(path, 0)
            if kind in ("pdf", "png"):
                src = P[p]["tex"] if kind == "pdf" else P[p]["pdf"]
                n += launches.get(("pdflatex" if kind == "pdf" else "pdftoppm", src), 0)
            if n:
                viol("C19:%s:unchanged-plot-redone" % label.split("[")[0],
                     "run %d: nothing plot %s depends on changed and none of its files was missing, "
                     "yet %s was rewritten / its converter launched" % (r, name, path))
                return
    if quiet_plots and quiet_plots < sc.nplots:
        res.probe("changed-plot-next-to-unchanged-plot")
    if not any_input_changed and prev is not None and quiet_plots == sc.nplots and \
            not (sc.w1 == "overwrite" or sc.w2 == "overwrite" or sc.ow_pdf or sc.ow_png):
        muts = [e for e in ops if e[0] in ("open-w", "open-a", "open-x", "write", "flush", "remove",
                                           "replace", "makedirs", "mkdir", "child-write")]
        if muts or sub.launches:
            viol("C19:run:unchanged-run-does-work",
                 "run %d had unchanged inputs and all files present but performed %d disk mutations and "
                 "%d launches" % (r, len(muts), len(sub.launches)))
            return
        res.probe("unchanged-run-no-work")
        if is_extra:
            res.probe("fixpoint-reached")
