"""C19, grouped variant: GroupBy, group_plots, MapGroup in front of the output chain.

    GroupBy("grp.name"), group_plots,
    MapGroup(ToCSV, MakeFilename("{{plot.name}}"), Write),      # one csv per member
    MakeFilename("combined_{{grp.name}}"),
    RenderLaTeX("group.tex"), Write, LaTeXToPDF, PDFToPNG       # one tex / pdf / png per group

Same history generator and the same recomputation oracle as the flat variant;
the additional clause exercised is that group_plots / MapGroup combine the
output.changed of the group members.  Called from c19.run.
"""
import copy
import io
import contextlib

import jinja2

import lena.core
import lena.flow
import lena.output
import lena.structures

from ..kernel import summarize, exception_origin, exception_site
from ..seams.proc import SimSubprocess, pdf_of, png_of, INPUT_RE

OUTDIR = "out"
GROUP_TEMPLATE_PATH = "templates/group.tex"


def group_template_text(version):
    return ("%% group template v%d\n"
            "\\BLOCK{ for item in group }\n"
            "\\input{\\VAR{ item.output.filepath }}\n"
            "\\BLOCK{ endfor }\n"
            "%% \\VAR{ grp.name }") % version


class Spec(object):
    pass


class Tap(object):
    def __init__(self, stage, rec, log, key):
        self.stage = stage
        self.rec = rec
        self.log = log
        self.key = key      # "plot" (member level) or "grp" (group level)

    def __call__(self, value):
        if isinstance(value, tuple) and len(value) == 2 and isinstance(value[1], dict):
            name = value[1].get(self.key, {}).get("name")
            out = copy.deepcopy(value[1].get("output"))
            self.rec.setdefault(self.stage, []).append((name, value[0], out))
            self.log.ev("tap", self.stage, name, summarize(out.get("changed", "<absent>") if out else None))
        return value


def gen(tape, sc):
    sc.ngroups = 1 + tape.draw(2, "ngroups")
    sc.members = 2 + tape.draw(2, "members") * 0      # two members per group
    sc.w1 = tape.weighted([(6, "plain"), (1, "overwrite")], "write1")
    sc.w2 = tape.weighted([(6, "plain"), (1, "overwrite")], "write2")
    sc.ow_pdf = tape.chance(1, 8, "latex-overwrite")
    sc.ow_png = tape.chance(1, 8, "png-overwrite")
    sc.clock = tape.weighted([(12, "normal"), (1, "tie")], "clock")
    # members are written inside MapGroup after grouping, or written first and grouped afterwards
    sc.order = tape.choice(["group-then-write", "write-then-group"], "order")
    sc.step = 1 + tape.draw(3, "tick-step")
    nruns = 1 + tape.draw(4, "nruns")
    sc.runs = []
    for r in range(nruns):
        run = Spec()
        run.jump = 1 + tape.draw(50, "clock-jump")
        run.template_change = r > 0 and tape.chance(1, 3, "template-change")
        run.data_change = []
        run.delete = []
        for g in range(sc.ngroups):
            run.data_change.append([r > 0 and tape.chance(1, 3, "data-change") for _ in range(sc.members)])
            mask = 0
            if r > 0 and tape.draw(2, "delete-something"):
                mask = tape.draw(32, "delete-mask", sweep=True)
            run.delete.append(mask)
        run.plan = [tape.choice([None, 0, 1, 2], "finish-after") for _ in range(sc.ngroups)]
        sc.runs.append(run)
    return sc


def run_grouped(tape, res, World, write_mod, latex_mod, png_mod):
    sc = Spec()
    gen(tape, sc)
    sc.nplots = 0
    sc.mkf = "plain"
    sc.fail = False
    w = World(sc, res)
    log = res.log
    fs = w.fs
    judged = sc.clock == "normal"
    res.say("grouped variant (%s): %d groups of %d plots, Write#1 %s, Write#2 %s, LaTeXToPDF(overwrite=%s), "
            "PDFToPNG(overwrite=%s), clock %s; %d runs + 2 unchanged runs"
            % (sc.order, sc.ngroups, sc.members, sc.w1, sc.w2, sc.ow_pdf, sc.ow_png, sc.clock, len(sc.runs)))
    log.ev("cfg", "c19-grouped", sc.ngroups, sc.w1, sc.w2, sc.ow_pdf, sc.ow_png, sc.clock)
    res.probe("grouped-variant")
    if sc.order == "write-then-group":
        res.probe("members-written-before-grouping")
    tversion = [0]
    dversion = [[0] * sc.members for _ in range(sc.ngroups)]
    fs.poke(GROUP_TEMPLATE_PATH, group_template_text(0))
    stop = [False]

    tainted = set()      # groups whose pdf may be stale as a consequence of the known root cause

    def viol(sig, detail, fatal=True):
        if fatal:
            stop[0] = True
        if judged:
            res.viol(sig, detail)
        else:
            key = "%s under clock-%s" % (sig, sc.clock)
            res.beyond[key] = res.beyond.get(key, 0) + 1

    def paths(g):
        p = {"tex": fs.norm("%s/combined_g%d.tex" % (OUTDIR, g)),
             "pdf": fs.norm("%s/combined_g%d.pdf" % (OUTDIR, g)),
             "png": fs.norm("%s/combined_g%d.png" % (OUTDIR, g))}
        for m in range(sc.members):
            p["csv%d" % m] = fs.norm("%s/g%dm%d.csv" % (OUTDIR, g, m))
        return p

    KINDS = ["csv%d" % m for m in range(sc.members)] + ["tex", "pdf", "png"]

    def render_expected(g, csvpaths):
        env = jinja2.Environment(**lena.output.jinja_syntax_latex)
        t = env.from_string(group_template_text(tversion[0]))
        return t.render({"group": [{"output": {"filepath": p}} for p in csvpaths], "grp": {"name": "g%d" % g}})

    extra = []
    for _ in range(2):
        e = Spec()
        e.jump = 5
        e.template_change = False
        e.data_change = [[False] * sc.members for _ in range(sc.ngroups)]
        e.delete = [0] * sc.ngroups
        e.plan = [None] * sc.ngroups
        e.extra = True
        extra.append(e)
    prev = None
    interesting = 0
    for r, spec in enumerate(list(sc.runs) + extra):
        is_extra = getattr(spec, "extra", False)
        fs.clock.tick(spec.jump)
        tchange = spec.template_change
        if tchange:
            tversion[0] += 1
            fs.poke(GROUP_TEMPLATE_PATH, group_template_text(tversion[0]))
            res.fault("template-changed")
        deleted = []
        for g in range(sc.ngroups):
            P = paths(g)
            d = set()
            for k, kind in enumerate(KINDS):
                if spec.delete[g] & (1 << k) and fs.peek(P[kind]) is not None:
                    fs.delete(P[kind])
                    d.add(kind)
                    res.fault("delete-" + kind.rstrip("0123456789"))
            deleted.append(d)
            for m in range(sc.members):
                if spec.data_change[g][m]:
                    dversion[g][m] += 1
                    res.fault("data-changed")
        if r > 0 and (tchange or any(any(x) for x in spec.data_change) or any(deleted)):
            interesting += 1
        if interesting:
            res.nontrivial = True
        res.say("run %d: data changed %r, template changed %r, deleted %r%s" % (
            r, [[int(x) for x in row] for row in spec.data_change], bool(tchange),
            [sorted(d) for d in deleted], " (unchanged extra run)" if is_extra else ""))
        log.ev("op", "run", r, summarize([[int(x) for x in row] for row in spec.data_change]), bool(tchange),
               tuple(tuple(sorted(d)) for d in deleted))
        start_image = fs.image()
        op0 = len(fs.oplog)
        plan = list(spec.plan)

        def planner(tool, n, plan=plan):
            if tool != "pdflatex":
                return None
            k = plan[n] if n < len(plan) else None
            res.fault("converter-finishes-at-communicate" if k is None else "converter-finishes-after-k-polls")
            return k
        sub = SimSubprocess(fs, log=log, plan=planner, stamp=True)
        latex_mod.subprocess = sub
        png_mod.subprocess = sub
        rec = {}

        def load(name):
            try:
                with fs.open("templates/" + name) as f:
                    return f.read()
            except FileNotFoundError:
                return None
        env = jinja2.Environment(loader=jinja2.FunctionLoader(load), **lena.output.jinja_syntax_latex)

        def wopts(kind):
            return {} if kind == "plain" else {kind: True}
        lkw = {"overwrite": True} if sc.ow_pdf else {}
        pkw = {"overwrite": True} if sc.ow_png else {}
        member = [lena.output.ToCSV(),
                  lena.output.MakeFilename("{{plot.name}}"),
                  Tap("mkf", rec, log, "plot"),
                  lena.output.Write(OUTDIR, verbose=False, **wopts(sc.w1)),
                  Tap("w1", rec, log, "plot")]
        if sc.order == "group-then-write":
            head = [lena.flow.GroupBy("grp.name"), lena.flow.group_plots, lena.flow.MapGroup(*member)]
        else:
            head = member + [lena.flow.GroupBy("grp.name"), lena.flow.group_plots]
        seq = lena.core.Sequence(*(head + [
            Tap("grp", rec, log, "grp"),
            lena.output.MakeFilename("combined_{{grp.name}}"),
            lena.output.RenderLaTeX("group.tex", environment=env),
            Tap("render", rec, log, "grp"),
            lena.output.Write(OUTDIR, verbose=False, **wopts(sc.w2)),
            Tap("w2", rec, log, "grp"),
            lena.output.LaTeXToPDF(verbose=0, **lkw),
            Tap("pdf", rec, log, "grp"),
            lena.output.PDFToPNG(verbose=False, **pkw),
            Tap("png", rec, log, "grp"),
        ]))
        values = []
        for g in range(sc.ngroups):
            for m in range(sc.members):
                h = lena.structures.histogram([0, 1, 2], [1000 + dversion[g][m], 7 + m])
                values.append((h, {"plot": {"name": "g%dm%d" % (g, m)}, "grp": {"name": "g%d" % g}}))
        try:
            with contextlib.redirect_stdout(io.StringIO()):
                out = list(seq.run(iter(values)))
        except Exception as e:  # noqa: BLE001
            if exception_origin(e) != "lena":
                raise
            viol("C19:grouped-run:unexpected-exception:%s@%s" % (type(e).__name__, exception_site(e)), repr(e)[:300])
            break
        res.ticks = fs.clock.now - 1000
        now = fs.image()
        ops = fs.oplog[op0:]
        writes = {}
        for op, path, nbytes, tick in ops:
            if op in ("open-w", "open-a", "open-x", "child-write"):
                writes[path] = writes.get(path, 0) + 1
        launches = {}
        for tool, cmd, tick in sub.launches:
            src = cmd[-1] if tool == "pdflatex" else cmd[1]
            launches[(tool, fs.norm(src))] = launches.get((tool, fs.norm(src)), 0) + 1

        def t_of(stage, name):
            return [(d, o) for n, d, o in rec.get(stage, []) if n == name]

        def changed_since_prev(path):
            if prev is None or path not in prev:
                return None
            return now.get(path) != prev[path]

        def truthy(outc):
            return bool(outc) and outc.get("changed") is True

        # ---- member level: csv files
        bad = False
        member_changed = {}
        for g in range(sc.ngroups):
            P = paths(g)
            for m in range(sc.members):
                name = "g%dm%d" % (g, m)
                t = t_of("w1", name)
                if len(t) != 1:
                    viol("C19:MapGroup:member-value-count", "member %s left Write %d times" % (name, len(t)))
                    bad = True
                    break
                data, outc = t[0]
                path = P["csv%d" % m]
                if not isinstance(data, str) or fs.norm(data) != path or path not in now:
                    viol("C19:Write[csv]:wrong-path-or-missing", "member %s: Write yielded %r, expected %s"
                         % (name, summarize(data), path))
                    bad = True
                    break
                handed = t_of("mkf", name)[0][0]
                if str(1000 + dversion[g][m]) not in handed or now[path].decode() != handed:
                    viol("C19:Write[csv]:%s:stale-content" % ("file-existed" if path in start_image else "file-was-missing"),
                         "run %d: %s is not what the current data produce" % (r, path))
                    bad = True
                    break
                cc = changed_since_prev(path)
                if cc and not truthy(outc):
                    root = path not in start_image
                    viol("C19:Write:%s:changed-not-set" % ("new-file" if root else "existing-file"),
                         "run %d, member %s: Write left %s with content different from the previous run, "
                         "but context.output.changed is %r" % (r, name, path, (outc or {}).get("changed", "<absent>")),
                         fatal=not root)
                    if not root:
                        bad = True
                        break
                    tainted.add(g)
                member_changed[(g, m)] = truthy(outc)
            if bad:
                break
        if bad:
            break
        # ---- group level
        stages = [("w2", "Write[tex]", "tex"), ("pdf", "LaTeXToPDF", "pdf"), ("png", "PDFToPNG", "png")]
        for g in range(sc.ngroups):
            P = paths(g)
            gname = "g%d" % g
            t = t_of("grp", gname)
            if len(t) != 1:
                viol("C19:MapGroup:group-value-count", "group %s left MapGroup %d times" % (gname, len(t)))
                bad = True
                break
            gdata, goutc = t[0]
            any_member = any(member_changed.get((g, m)) for m in range(sc.members))
            if any_member and not truthy(goutc):
                viol("C19:%s:changed-of-members-not-combined" % (
                    "MapGroup" if sc.order == "group-then-write" else "group_plots"),
                     "run %d, group %s: a member's output.changed is true but the group's is %r"
                     % (r, gname, (goutc or {}).get("changed", "<absent>")))
                bad = True
                break
            prev_changed = truthy(goutc)
            incoming = goutc
            for stage, label, kind in stages:
                tt = t_of(stage, gname)
                if len(tt) != 1:
                    viol("C19:%s:value-count" % label, "group %s left %s %d times" % (gname, label, len(tt)))
                    bad = True
                    break
                data, outc = tt[0]
                path = P[kind]
                if not isinstance(data, str) or fs.norm(data) != path:
                    viol("C19:%s:wrong-path" % label, "group %s: %s yielded %r, expected %s"
                         % (gname, label, summarize(data), path))
                    bad = True
                    break
                if path not in now:
                    viol("C19:%s:file-missing" % label, "run %d: %s yielded %s but no such file exists" % (r, label, path))
                    bad = True
                    break
                content = now[path].decode()
                ex = "file-existed" if path in start_image else "file-was-missing"
                if kind == "tex":
                    handed = t_of("render", gname)[0][0]
                    csvp = [t_of("w1", "g%dm%d" % (g, m))[0][0] for m in range(sc.members)]
                    exp = render_expected(g, csvp)
                    if handed != exp:
                        viol("C19:RenderLaTeX:stale-or-wrong-text", "RenderLaTeX yielded %r; the current template "
                             "renders to %r" % (handed, exp))
                        bad = True
                        break
                    fresh = content == handed
                elif kind == "pdf":
                    tex = now[P["tex"]].decode()
                    datas = [now.get(fs.norm(nm.strip()), b"<missing>") for nm in INPUT_RE.findall(tex)]
                    fresh = content.startswith(pdf_of(tex, datas) + "@")
                else:
                    fresh = content == png_of(now[P["pdf"]])
                if kind == "pdf" and fresh:
                    tainted.discard(g)
                told_unchanged = incoming is not None and incoming.get("changed") is False
                incoming = outc
                if not fresh and g in tainted and kind in ("pdf", "png") and told_unchanged:
                    res.probe("stale-as-consequence-of-known-finding")
                    continue
                if not fresh:
                    viol("C19:%s:%s:stale-content" % (label, ex),
                         "run %d, group %s: %s on disk is not what the current inputs produce (deleted before "
                         "the run: %r; output context: %r)" % (r, gname, path, sorted(deleted[g]), summarize(outc)))
                    bad = True
                    break
                cc = changed_since_prev(path)
                if cc and not truthy(outc):
                    sig = "C19:%s:%s:changed-not-set" % (label.split("[")[0], "new-file" if path not in start_image
                                                         else "existing-file")
                    root = sig == "C19:Write:new-file:changed-not-set"
                    viol(sig,
                         "run %d, group %s: %s left %s with content different from the previous run, but "
                         "context.output.changed is %r" % (r, gname, label, path,
                                                          (outc or {}).get("changed", "<absent>")),
                         fatal=not root)
                    if not root:
                        bad = True
                        break
                    tainted.add(g)
                if prev_changed and not truthy(outc):
                    viol("C19:%s:changed-dropped" % label.split("[")[0],
                         "run %d, group %s: output.changed was true before %s and is %r after it"
                         % (r, gname, label, (outc or {}).get("changed", "<absent>")))
                    bad = True
                    break
                if truthy(outc):
                    prev_changed = True
            if bad:
                break
        if bad:
            break
        # ---- no redundant work, group by group
        quiet = 0
        for g in range(sc.ngroups):
            P = paths(g)
            unchanged = (not tchange and not any(spec.data_change[g]) and not deleted[g] and prev is not None
                         and all(P[k] in start_image for k in KINDS))
            if not unchanged:
                continue
            quiet += 1
            if sc.w1 == "overwrite":
                continue
            for kind in KINDS:
                if kind == "tex" and sc.w2 == "overwrite":
                    break
                if kind == "pdf" and (sc.ow_pdf or sc.w2 == "overwrite"):
                    break
                if kind == "png" and sc.ow_png:
                    break
                n = writes.get(P[kind], 0)
                if kind == "pdf":
                    n += launches.get(("pdflatex", P["tex"]), 0)
                if kind == "png":
                    n += launches.get(("pdftoppm", P["pdf"]), 0)
                if n:
                    stage = {"tex": "Write", "pdf": "LaTeXToPDF", "png": "PDFToPNG"}.get(kind, "Write")
                    viol("C19:%s:unchanged-plot-redone" % stage,
                         "run %d: nothing group g%d depends on changed and none of its files was missing, yet "
                         "%s was rewritten / its converter launched" % (r, g, P[kind]))
                    bad = True
                    break
            if bad:
                break
        if bad:
            break
        if quiet == sc.ngroups and prev is not None and is_extra:
            res.probe("fixpoint-reached")
        if any(any(member_changed.get((g, m)) for m in range(sc.members)) and
               not all(member_changed.get((g, m)) for m in range(sc.members)) for g in range(sc.ngroups)):
            res.probe("group-with-one-changed-member")
        prev = now
        if stop[0]:
            break
    return res
