"""Process seam: an in-process `subprocess` whose child processes are fake,
content-addressed converters working on SimFS.  *When* a child finishes
(after its k-th poll(), or only at communicate()) is decided by the
simulator; its work (read sources, write the artefact) is executed at
that instant.

    pdflatex ... -output-directory DIR FILE.tex
        reads FILE.tex and every file named in an \\input{...} line of it,
        writes DIR/<basename>.pdf = PDF[sha(tex):sha(data)...]
    pdftoppm FILE.pdf BASE -png -singlefile
        reads FILE.pdf, writes BASE.png = PNG[sha(pdf)]
"""
import hashlib
import posixpath
import re

from ..kernel import UnmodelledSyscall


def sha(data):
    if isinstance(data, str):
        data = data.encode("utf-8")
    return hashlib.sha256(data).hexdigest()[:16]


INPUT_RE = re.compile(r"\\input\{([^}]*)\}")


def pdf_of(tex, datas):
    """the pdf a correct pdflatex run produces from this tex text and these data files"""
    return "PDF[%s:%s]" % (sha(tex), ",".join(sha(d) for d in datas))


def png_of(pdf, fmt="png"):
    return "%s[%s]" % (fmt.upper(), sha(pdf))


class SimProc(object):
    def __init__(self, sub, command, finish_after):
        self.sub = sub
        self.args = list(command)
        self.finish_after = finish_after    # None: only at communicate()
        self.polls = 0
        self.returncode = None
        self.stdout = b""
        self.stderr = b""
        self.done = False
        self.tool = posixpath.basename(command[0]) if command else "?"
        self.target = None
        self.fail = False

    # -- the child's work ---------------------------------------------------
    def _work(self):
        fs = self.sub.fs
        if self.fail:
            return 1
        if self.tool == "pdflatex":
            args = self.args[1:]
            outdir = "."
            texfile = None
            i = 0
            while i < len(args):
                a = args[i]
                if a in ("-output-directory",):
                    outdir = args[i + 1]
                    i += 2
                    continue
                if a in ("-interaction",):
                    i += 2
                    continue
                if a.startswith("-"):
                    i += 1
                    continue
                texfile = a
                i += 1
            if texfile is None:
                return 1
            tex = fs.child_read(texfile)
            if tex is None:
                return 1
            tex = tex.decode("utf-8")
            datas = []
            for name in INPUT_RE.findall(tex):
                d = fs.child_read(name.strip())
                if d is None:
                    return 1
                datas.append(d)
            base = posixpath.basename(texfile)
            if base.endswith(".tex"):
                base = base[:-4]
            out = posixpath.join(outdir, base + ".pdf")
            self.target = out
            content = pdf_of(tex, datas)
            if self.sub.stamp:
                # like the real tool: two runs on the same sources do not give the same bytes
                fs.child_serial = getattr(fs, "child_serial", 0) + 1
                content += "@%d" % fs.child_serial
            fs.child_write(out, content)
            return 0
        if self.tool == "pdftoppm":
            args = [a for a in self.args[1:] if not a.startswith("-")]
            flags = [a for a in self.args[1:] if a.startswith("-")]
            if len(args) != 2:
                return 1
            fmt = "png"
            for f in flags:
                if f not in ("-singlefile",):
                    fmt = f[1:]
            pdf = fs.child_read(args[0])
            if pdf is None:
                return 1
            out = args[1] + "." + fmt
            self.target = out
            fs.child_write(out, png_of(pdf, fmt))
            return 0
        raise UnmodelledSyscall("process %r" % (self.args,))

    def _finish(self):
        if not self.done:
            self.done = True
            self.returncode = self._work()
            self.sub.event("done", self)

    # -- Popen interface ------------------------------------------------------
    def poll(self):
        self.polls += 1
        self.sub.event("poll", self)
        if not self.done and self.finish_after is not None and self.polls > self.finish_after:
            self.sub.probe_finished_between_polls += 1
            self._finish()
        return self.returncode

    def wait(self, timeout=None):
        self._finish()
        return self.returncode

    def communicate(self, input=None, timeout=None):
        self.sub.event("communicate", self)
        self._finish()
        return (b"", b"")

    def terminate(self):
        self.done = True
        if self.returncode is None:
            self.returncode = -15

    kill = terminate


class SimSubprocess(object):
    """Stands in for the `subprocess` module inside lena.output.*"""

    PIPE = -1
    STDOUT = -2
    DEVNULL = -3

    class TimeoutExpired(Exception):
        pass

    class CalledProcessError(Exception):
        pass

    def __init__(self, fs, log=None, plan=None, fail_plan=None, stamp=False):
        self.fs = fs
        self.stamp = stamp          # pdflatex output carries a serial number (C19)
        self.log = log
        self.plan = plan            # callable(tool, n) -> finish_after (int or None)
        self.fail_plan = fail_plan  # callable(tool, n) -> bool
        self.launches = []          # (tool, argv tuple, tick)
        self.nlaunch = 0
        self.probe_finished_between_polls = 0

    def event(self, what, proc):
        if self.log is not None:
            self.log.ev("proc", what, proc.tool, proc.target or (proc.args[-1] if proc.args else ""),
                        self.fs.clock.now)

    def Popen(self, command, *args, **kwargs):
        if isinstance(command, str):
            raise UnmodelledSyscall("Popen with a shell string: %r" % (command,))
        tool = posixpath.basename(command[0])
        n = self.nlaunch
        self.nlaunch += 1
        fa = self.plan(tool, n) if self.plan else None
        p = SimProc(self, command, fa)
        if self.fail_plan is not None and self.fail_plan(tool, n):
            p.fail = True
        self.launches.append((tool, tuple(command), self.fs.clock.now))
        if self.log is not None:
            self.log.ev("proc", "launch", tool, command[-1] if tool == "pdflatex" else command[1],
                        self.fs.clock.now)
        return p

    # -- convenience functions of the subprocess module, all through Popen ----------
    def call(self, command, *args, **kwargs):
        p = self.Popen(command)
        p.communicate()
        return p.returncode

    def check_call(self, command, *args, **kwargs):
        rc = self.call(command)
        if rc:
            raise self.CalledProcessError(rc, command)
        return 0

    def check_output(self, command, *args, **kwargs):
        self.check_call(command)
        return b""

    def run(self, command, *args, **kwargs):
        p = self.Popen(command)
        out, err = p.communicate()
        if kwargs.get("check") and p.returncode:
            raise self.CalledProcessError(p.returncode, command)

        class Completed(object):
            pass
        c = Completed()
        c.args, c.returncode, c.stdout, c.stderr = command, p.returncode, out, err
        return c

    def __getattr__(self, name):
        raise UnmodelledSyscall("subprocess.%s" % name)
