"""Flow seam: simulated sources, provenance tokens, boundary taps and
probe elements.  Everything appends to the run's global event log.
"""
import weakref

from ..kernel import Boom, PullBudgetExceeded, summarize
import lena.core


class _AliveObjects(object):
    """alive objects counted by identity (tokens compare equal by value, a WeakSet would
    merge the copies of one token)"""

    def __init__(self):
        self._refs = {}

    def add(self, obj):
        k = id(obj)
        refs = self._refs
        refs[k] = weakref.ref(obj, lambda r, k=k: refs.pop(k, None))

    def __len__(self):
        return len(self._refs)

    def clear(self):
        self._refs.clear()


# deep copies of tokens that are alive (Split copies its block for its branches)
COPIES = _AliveObjects()


class Tok(object):
    """Tiny value with a provenance serial.  Weak-referenceable, picklable,
    deep-copyable (a deep copy is registered as a copy, not an original).
    *tag* records the Split branches the value went through."""

    __slots__ = ("serial", "stage", "orig", "tag", "__weakref__")

    def __init__(self, serial, stage=0, orig=True, tag=()):
        self.serial = serial
        self.stage = stage
        self.orig = orig
        self.tag = tag

    def derive(self, tag=None):
        """A new (non-original) token with the same provenance."""
        return Tok(self.serial, self.stage + 1, False, self.tag if tag is None else tag)

    def __deepcopy__(self, memo):
        t = Tok(self.serial, self.stage, False, self.tag)
        COPIES.add(t)
        return t

    def __copy__(self):
        return Tok(self.serial, self.stage, False, self.tag)

    def __reduce__(self):
        return (Tok, (self.serial, self.stage, False, self.tag))

    def __eq__(self, other):
        return (isinstance(other, Tok) and self.serial == other.serial
                and self.stage == other.stage and self.tag == other.tag)

    def __ne__(self, other):
        return not self.__eq__(other)

    def __hash__(self):
        return hash((self.serial, self.stage, self.tag))

    def __repr__(self):
        return "Tok(%d.%d%s)" % (self.serial, self.stage, "".join("/%s" % (t,) for t in self.tag))

    def _sim_summary(self):
        return ("Tok", self.serial, self.stage, self.tag)


def tok_of(value):
    if isinstance(value, Tok):
        return value
    if isinstance(value, tuple):
        for x in value:
            t = tok_of(x)
            if t is not None:
                return t
    return None


def key_of(value):
    """(serial, tag): unique per value inside one stream."""
    t = tok_of(value)
    if t is None:
        return None
    return (t.serial, t.tag)


def bump(value, tag=None):
    """The 1:1 transformation used by probe callables: same provenance,
    new (non-original) token; context (if any) is kept."""
    if isinstance(value, Tok):
        return value.derive(tag)
    if isinstance(value, tuple) and len(value) == 2 and isinstance(value[0], Tok):
        return (value[0].derive(tag), value[1])
    raise TypeError("bump: unexpected value %r" % (value,))


def serial_of(value):
    """Provenance serial of a value (bare Tok, (Tok, context), tagged
    tuples produced by probes)."""
    if isinstance(value, Tok):
        return value.serial
    if isinstance(value, tuple):
        for x in value:
            s = serial_of(x)
            if s is not None:
                return s
    return None


def ident(value):
    """What the log says about a value: its provenance serial if it carries
    a Tok, a primitive summary otherwise."""
    s = serial_of(value)
    if s is not None:
        return s
    return summarize(value)


class SimSource(object):
    """The only input flow a simulated pipeline sees: an iterator that logs
    every pull, may raise at a planned index and enforces a pull budget."""

    def __init__(self, log, name, n, make, raise_at=None, budget=None, exc=Boom,
                 keep_weak=False):
        self.log = log
        self.name = name
        self.n = n                  # None = infinite
        self.make = make            # index -> value
        self.raise_at = raise_at
        self.exc = exc
        self.budget = budget
        self.pulls = 0
        self.attempts = 0           # __next__ calls, including the one that ends
        self.ended = False
        self.raised = False
        self.weak = [] if keep_weak else None

    def __iter__(self):
        return self

    def __next__(self):
        i = self.pulls
        self.attempts += 1
        if self.raise_at is not None and i == self.raise_at \
                and (self.n is None or i < self.n):
            self.raised = True
            self.log.ev("raise", self.name, self.exc.__name__, i)
            raise self.exc("injected at pull %d of %s" % (i, self.name))
        if self.n is not None and i >= self.n:
            if not self.ended:
                self.log.ev("pull-end", self.name, i)
            self.ended = True
            raise StopIteration
        if self.budget is not None and i >= self.budget:
            self.log.ev("pull-budget", self.name, i)
            raise PullBudgetExceeded(self.name)
        self.pulls = i + 1
        self.log.ev("pull", self.name, i)
        v = self.make(i)
        if self.weak is not None:
            t = v[0] if isinstance(v, tuple) else v
            self.weak.append(weakref.ref(t))
        return v

    next = __next__

    hinted = False

    def __length_hint__(self):
        # an input that can tell how many values remain (as lists and ranges can); an
        # infinite one keeps saying "one more"
        if not self.hinted:
            return NotImplemented
        if self.n is None:
            return 1
        return max(self.n - self.pulls, 0)

    def alive(self):
        n = 0
        for r in self.weak:
            if r() is not None:
                n += 1
        return n

    def __call__(self):
        # usable as the first element of a Source
        return self


class Tap(object):
    """Transparent run element on an element boundary: logs every value
    that crosses it.  Lazy by construction."""

    def __init__(self, log, name):
        self.log = log
        self.name = name
        self.count = 0
        self.ended = False
        self.values = []

    def run(self, flow):
        for v in flow:
            self.log.ev("tap", self.name, ident(v))
            self.count += 1
            yield v
        self.ended = True
        self.log.ev("tap-end", self.name)


class ProbeCall(object):
    """Probe callable: logs, transforms 1:1, may raise at its k-th call."""

    def __init__(self, log, name, fn=None, raise_at=None, exc=Boom):
        self.log = log
        self.name = name
        self.fn = fn
        self.calls = 0
        self.raise_at = raise_at
        self.exc = exc

    def __call__(self, value):
        k = self.calls
        self.calls += 1
        self.log.ev("call", self.name, k, ident(value))
        if self.raise_at is not None and k == self.raise_at:
            self.log.ev("raise", self.name, self.exc.__name__, k)
            raise self.exc("injected at call %d of %s" % (k, self.name))
        if self.fn is not None:
            return self.fn(value)
        return (self.name, value)


class ProbeRun(object):
    """Probe run element (1:1 generator), lazy; may raise at its k-th value."""

    def __init__(self, log, name, fn=None, raise_at=None, exc=Boom):
        self.log = log
        self.name = name
        self.fn = fn
        self.seen = 0
        self.raise_at = raise_at
        self.exc = exc
        self.runs = 0

    def run(self, flow):
        self.runs += 1
        self.log.ev("runbody", self.name)
        for v in flow:
            k = self.seen
            self.seen += 1
            self.log.ev("runval", self.name, k, ident(v))
            if self.raise_at is not None and k == self.raise_at:
                self.log.ev("raise", self.name, self.exc.__name__, k)
                raise self.exc("injected at value %d of %s" % (k, self.name))
            if self.fn is not None:
                yield self.fn(v)
            else:
                yield (self.name, v)


class ProbeFC(object):
    """Probe fill/compute accumulator: records fills, yields one result that
    names everything filled.  May raise LenaStopFill at its k-th fill."""

    def __init__(self, log, name, stop_at=None, results=1, stamp=None, err_at=None):
        self.stamp = stamp
        self.log = log
        self.name = name
        self.filled = []
        self.stop_at = stop_at
        self.err_at = err_at        # raises a Lena exception that is NOT a stop signal
        self.nfills = 0
        self.computes = 0
        self.results = results

    def fill(self, value):
        k = self.nfills
        self.nfills += 1
        if self.err_at is not None and k == self.err_at:
            self.log.ev("raise", self.name, "LenaValueError", k)
            raise lena.core.LenaValueError("injected at fill %d of %s" % (k, self.name))
        if self.stop_at is not None and k >= self.stop_at:
            self.log.ev("stopfill", self.name, k)
            raise lena.core.LenaStopFill()
        self.log.ev("fill", self.name, k, ident(value))
        self.filled.append(value)

    def compute(self):
        self.computes += 1
        self.log.ev("compute", self.name)
        for j in range(self.results):
            if self.stamp is not None:
                yield (self.name, "fc", j, self.stamp, tuple(self.filled))
            else:
                yield (self.name, "fc", j, tuple(self.filled))


class ProbeFR(object):
    """Probe fill/request element: request() yields one tagged result naming
    the values filled since the previous request (and forgets them)."""

    def __init__(self, log, name, stop_at=None, results=1, keep=False, err_at=None):
        self.log = log
        self.name = name
        self.filled = []
        self.stop_at = stop_at
        self.err_at = err_at
        self.nfills = 0
        self.requests = 0
        self.resets = 0
        self.results = results
        self.keep = keep     # do not forget on request (cumulative)

    def fill(self, value):
        k = self.nfills
        self.nfills += 1
        if self.err_at is not None and k == self.err_at:
            self.log.ev("raise", self.name, "LenaValueError", k)
            raise lena.core.LenaValueError("injected at fill %d of %s" % (k, self.name))
        if self.stop_at is not None and k >= self.stop_at:
            self.log.ev("stopfill", self.name, k)
            raise lena.core.LenaStopFill()
        self.log.ev("fill", self.name, k, ident(value))
        self.filled.append(value)

    def request(self):
        r = self.requests
        self.requests += 1
        self.log.ev("request", self.name, r)
        vals = tuple(self.filled)
        if not self.keep:
            self.filled = []
        for j in range(self.results):
            yield (self.name, "fr", r, j, vals)

    def reset(self):
        self.resets += 1
        self.log.ev("reset", self.name)
        self.filled = []


class ProbeSrc(object):
    """Probe source element: __call__ yields m tagged values."""

    def __init__(self, log, name, m):
        self.log = log
        self.name = name
        self.m = m
        self.calls = 0

    def __call__(self):
        # a plain function, not a generator function: the call itself is an event (a generator
        # function would hide a call that is made too early)
        c = self.calls
        self.calls += 1
        self.log.ev("srccall", self.name, c)
        return self._values(c)

    def _values(self, c):
        for j in range(self.m):
            self.log.ev("srcval", self.name, c, j)
            yield (self.name, "src", c, j)


class ProbeStopFillInto(object):
    """fill_into element that raises LenaStopFill at its k-th call (k >= stop_at),
    like the StopFill helper of the pinned tests."""

    def __init__(self, log, name, stop_at):
        self.log = log
        self.name = name
        self.stop_at = stop_at
        self.n = 0

    def fill_into(self, element, value):
        k = self.n
        self.n += 1
        if k >= self.stop_at:
            self.log.ev("stopfill", self.name, k)
            raise lena.core.LenaStopFill()
        element.fill(value)


class ProbeRunMulti(object):
    """Run element: yields *per* results per value and one trailer per run
    (so that a run over an empty block is visible)."""

    def __init__(self, log, name, per=1, trailer=True):
        self.log = log
        self.name = name
        self.per = per
        self.trailer = trailer
        self.runs = 0

    def run(self, flow):
        r = self.runs
        self.runs += 1
        self.log.ev("runbody", self.name, r)
        n = 0
        for v in flow:
            self.log.ev("runval", self.name, r, ident(v))
            for j in range(self.per):
                yield (self.name, "run", r, j, v)
            n += 1
        if self.trailer:
            yield (self.name, "run-end", r, n)


class Pred(object):
    """Logged predicate on the provenance serial: mask over serial % 8."""

    def __init__(self, log, name, mask):
        self.log = log
        self.name = name
        self.mask = mask
        self.__name__ = "pred_" + name.replace(".", "_")

    def ok(self, serial):
        return bool((self.mask >> (serial % 8)) & 1)

    def __call__(self, value):
        t = tok_of(value)
        if t is None:
            # a value without provenance (e.g. a per-run trailer) always passes
            self.log.ev("sel", self.name, None)
            return True
        self.log.ev("sel", self.name, t.serial)
        return self.ok(t.serial)


class PredFailing(Pred):
    """the same selection, but half of the rejected values are rejected by failing (an
    AttributeError, as for a value that lacks an attribute): for a Selector with
    raise_on_error=False that means "not selected" """

    def __call__(self, value):
        t = tok_of(value)
        if t is None:
            self.log.ev("sel", self.name, None)
            return True
        self.log.ev("sel", self.name, t.serial)
        if not self.ok(t.serial) and t.serial % 2:
            raise AttributeError("the value has no such attribute")
        return self.ok(t.serial)


class Unprintable(object):
    """an object that cannot be formatted: passing it on must not try to"""

    def __init__(self, n):
        self.n = n

    def __repr__(self):
        raise RuntimeError("repr of a value that was only to be passed on was asked for")

    __str__ = __repr__

    def __format__(self, spec):
        raise RuntimeError("format of a value that was only to be passed on was asked for")

    def _sim_summary(self):
        return ("Unprintable", self.n)


class NoEq(object):
    """a foreign object that refuses comparison (as an array refuses a truth value for ==);
    passing it on must not compare it"""

    def __init__(self, n):
        self.n = n
        self.payload = {"n": n}

    def __eq__(self, other):
        raise ValueError("the truth value of a comparison with this object is ambiguous")

    def __ne__(self, other):
        raise ValueError("the truth value of a comparison with this object is ambiguous")

    __hash__ = object.__hash__


class RaisesAt(object):
    """callable pre-element: passes values through and raises the given exception at its k-th call
    (the way lena.context.get_recursively raises LenaKeyError for a value that lacks a key)"""

    def __init__(self, exc_class, k):
        self.exc_class = exc_class
        self.k = k
        self.n = 0

    def __call__(self, value):
        n = self.n
        self.n += 1
        if n == self.k:
            raise self.exc_class("value %d cannot be processed" % n)
        return value


class FailsFor(object):
    """a predicate that fails (AttributeError, as when a value lacks an attribute) for the values
    *fails* says, and answers *pred* otherwise"""

    def __init__(self, pred, fails):
        self.pred = pred
        self.fails = fails

    def __call__(self, value):
        if self.fails(value):
            raise AttributeError("the value has no such attribute")
        return self.pred(value)


class Numbering(object):
    """stateful callable pre-element: numbers the values it sees"""

    def __init__(self):
        self.n = 0

    def __call__(self, value):
        n = self.n
        self.n += 1
        return ("numbered", n, value)
