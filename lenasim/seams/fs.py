"""Disk seam: an in-memory POSIX-like file system with a simulated clock,
an operation log, pending (unflushed) writes, process crashes with torn
writes, and injected ENOSPC / EIO.

Installed by assigning module attributes (`mod.os = SimOS(fs)`,
`mod.open = fs.open`); no change in /repo is needed.
"""
import errno
import fnmatch
import glob as _real_glob
import io
import os as _real_os
import posixpath

from ..kernel import UnmodelledSyscall


class ProcessCrash(BaseException):
    """The simulated process died (raised out of a disk operation)."""


class Clock(object):
    def __init__(self):
        self.now = 1000

    def tick(self, n=1):
        self.now += n
        return self.now


class SimFile(object):
    """File object of SimFS.  Writes are pending until flush/close."""

    def __init__(self, fs, path, mode, epoch):
        self._fs = fs
        self.name = path
        self.mode = mode
        self._epoch = epoch
        self._binary = "b" in mode
        self._writable = any(c in mode for c in "wax+")
        self._readable = "r" in mode or "+" in mode
        self.closed = False
        self._pending = []  # list of bytes, not yet durable
        self._reader = None
        if self._readable:
            data = bytes(fs.files[path])
            if self._binary:
                self._reader = io.BytesIO(data)
            else:
                self._reader = io.StringIO(data.decode("utf-8"))

    # -- liveness ----------------------------------------------------------
    def _dead(self):
        return self._epoch != self._fs.epoch or self._fs.crashed

    # -- context manager -----------------------------------------------------
    def __enter__(self):
        return self

    def __exit__(self, *exc):
        self.close()
        return False

    def __iter__(self):
        return self

    def __next__(self):
        line = self.readline()
        if not line:
            raise StopIteration
        return line

    # -- reading -----------------------------------------------------------
    def _check_read(self, n):
        if self.closed:
            raise ValueError("I/O operation on closed file.")
        if not self._readable:
            raise io.UnsupportedOperation("not readable")
        self._fs._op("read", self.name, n)

    def read(self, size=-1):
        self._check_read(0)
        if size is None:
            size = -1
        data = self._reader.read(size)
        self._fs.stats_read(self.name, len(data))
        return data

    def readline(self, size=-1):
        self._check_read(0)
        return self._reader.readline(size)

    def readinto(self, b):
        self._check_read(0)
        return self._reader.readinto(b)

    def readlines(self):
        return list(self)

    def seek(self, pos, whence=0):
        if self._reader is None:
            raise io.UnsupportedOperation("seek on a write-only SimFile")
        return self._reader.seek(pos, whence)

    def tell(self):
        if self._reader is not None:
            return self._reader.tell()
        return sum(len(p) for p in self._pending)

    # -- writing -------------------------------------------------------------
    def write(self, data):
        if self.closed:
            raise ValueError("I/O operation on closed file.")
        if not self._writable:
            raise io.UnsupportedOperation("not writable")
        if self._binary:
            if isinstance(data, str):
                raise TypeError("a bytes-like object is required, not 'str'")
            raw = bytes(data)
        else:
            if not isinstance(data, str):
                raise TypeError("write() argument must be str, not %s" % type(data).__name__)
            raw = data.encode("utf-8")
        if self._dead():
            return len(data)
        self._fs._op("write", self.name, len(raw))
        self._fs._maybe_enospc(self.name)
        self._pending.append(raw)
        return len(data)

    def writelines(self, lines):
        for line in lines:
            self.write(line)

    def flush(self):
        if self.closed:
            raise ValueError("I/O operation on closed file.")
        if self._dead() or not self._writable:
            return
        if self._pending:
            self._fs._op("flush", self.name, sum(len(p) for p in self._pending))
            raw = b"".join(self._pending)
            self._pending = []
            fs = self._fs
            fs._nflushes += 1
            if fs.enospc_flush_at is not None and fs._nflushes == fs.enospc_flush_at:
                # the disk is full when the buffered data finally goes out (typically at close):
                # a part of it is written, then the error surfaces
                fs._fire("ENOSPC-at-flush")
                fs._commit(self.name, raw[:len(raw) // 2])
                raise OSError(errno.ENOSPC, "No space left on device (injected at flush)", self.name)
            fs._commit(self.name, raw)

    def close(self):
        if self.closed:
            return
        if not self._dead() and self._writable:
            self.flush()
            self._fs._op("close", self.name, 0)
        self.closed = True
        try:
            self._fs.open_files.remove(self)
        except ValueError:
            pass

    def fileno(self):
        raise UnmodelledSyscall("fileno() on a SimFile")

    def isatty(self):
        return False

    def readable(self):
        return self._readable

    def writable(self):
        return self._writable

    def seekable(self):
        return self._reader is not None


class SimFS(object):
    """In-memory file system.  cwd is /sim."""

    CWD = "/sim"

    def __init__(self, log=None, clock=None, tick_draw=None):
        self.files = {}          # path -> bytearray (durable content)
        self.mtime = {}          # path -> tick of last durable modification
        self.dirs = set(["/", self.CWD])
        self.epoch = 0
        self.crashed = False
        self.open_files = []
        self.oplog = []          # (op, path, nbytes, tick): every access
        self.log = log
        self.clock = clock or Clock()
        self._tick_draw = tick_draw   # callable -> increment, or None (1)
        self.opcount = 0
        # fault plan
        self.crash_at = None     # crash when opcount reaches this value
        self.crash_tear = None   # callable(path, pending_len) -> kept bytes
        self.enospc_at = None    # n-th write raises ENOSPC
        self.enospc_flush_at = None   # n-th flush of buffered data raises ENOSPC
        self._nflushes = 0
        self.eio_at = None       # n-th read raises EIO
        self._nwrites = 0
        self._nreads = 0
        self.fired = {}
        self.bytes_read = 0
        self.ticks_per_second = 1     # modification times are reported as ticks / ticks_per_second

    # -- helpers -------------------------------------------------------------
    NAME_MAX = 255

    def norm(self, path):
        if not isinstance(path, str):
            raise TypeError("SimFS path must be str, got %r" % (type(path),))
        if not posixpath.isabs(path):
            path = posixpath.join(self.CWD, path)
        return posixpath.normpath(path)

    def _fire(self, kind):
        self.fired[kind] = self.fired.get(kind, 0) + 1

    def _op(self, op, path, nbytes):
        """Record one access; maybe crash the process here."""
        if self.crashed:
            raise ProcessCrash()
        self.opcount += 1
        mutating = op in ("open-w", "open-a", "open-x", "write", "flush", "close", "remove",
                          "replace", "makedirs", "mkdir", "utime", "rmdir")
        if mutating:
            inc = self._tick_draw() if self._tick_draw else 1
            self.clock.tick(inc)
        entry = (op, path, nbytes, self.clock.now)
        self.oplog.append(entry)
        if self.log is not None:
            self.log.ev("fs", op, path, nbytes, self.clock.now)
        if self.crash_at is not None and self.opcount >= self.crash_at:
            self.crash()
            raise ProcessCrash()
        if op == "read":
            self._nreads += 1
            if self.eio_at is not None and self._nreads == self.eio_at:
                self._fire("EIO")
                raise OSError(errno.EIO, "Input/output error (injected)", path)

    def _maybe_enospc(self, path):
        self._nwrites += 1
        if self.enospc_at is not None and self._nwrites == self.enospc_at:
            self._fire("ENOSPC")
            raise OSError(errno.ENOSPC, "No space left on device (injected)", path)

    def stats_read(self, path, n):
        self.bytes_read += n

    def _commit(self, path, raw):
        if path not in self.files:
            # removed or renamed while open: POSIX keeps the inode, we drop the bytes
            return
        self.files[path].extend(raw)
        self.mtime[path] = self.clock.now

    # -- crash / restart -----------------------------------------------------
    def crash(self):
        """The process dies now: of every open writable file a prefix of the
        pending bytes chosen by crash_tear becomes durable, the rest is lost."""
        if self.crashed:
            return
        survivors = []
        for f in list(self.open_files):
            if f._writable and f._pending and f._epoch == self.epoch:
                raw = b"".join(f._pending)
                keep = self.crash_tear(f.name, len(raw)) if self.crash_tear else 0
                keep = max(0, min(len(raw), keep))
                if keep and f.name in self.files:
                    self.files[f.name].extend(raw[:keep])
                    self.mtime[f.name] = self.clock.now
                survivors.append((f.name, keep, len(raw)))
                f._pending = []
        self.crashed = True
        self._fire("process-crash")
        if self.log is not None:
            self.log.ev("crash", self.epoch, tuple(survivors))

    def restart(self):
        """Next process: only durable state survives."""
        self.epoch += 1
        self.crashed = False
        self.open_files = []
        self.crash_at = None
        self.enospc_at = None
        self.eio_at = None
        self.opcount = 0
        self._nwrites = 0
        self._nreads = 0
        self._nflushes = 0
        self.enospc_flush_at = None

    def new_run(self):
        """Reset per-run counters (same process or not)."""
        self.opcount = 0
        self._nwrites = 0
        self._nreads = 0
        self._nflushes = 0

    # -- the open() seam -------------------------------------------------------
    def open(self, file, mode="r", buffering=-1, encoding=None, errors=None,
             newline=None, closefd=True, opener=None):
        path = self.norm(file)
        m = mode.replace("t", "")
        kind = m.replace("b", "").replace("+", "")
        if kind not in ("r", "w", "a", "x"):
            raise ValueError("invalid mode: %r" % mode)
        if len(posixpath.basename(path)) > self.NAME_MAX:
            self._op("open-" + kind, path, 0)
            self._fire("ENAMETOOLONG")
            raise OSError(errno.ENAMETOOLONG, "File name too long", path)
        if kind == "r":
            self._op("open-r", path, 0)
            if path in self.dirs:
                raise IsADirectoryError(errno.EISDIR, "Is a directory", path)
            if path not in self.files:
                raise FileNotFoundError(errno.ENOENT, "No such file or directory", path)
            if "+" in m:
                raise UnmodelledSyscall("mode %r" % mode)
            f = SimFile(self, path, m, self.epoch)
            return f
        # writing modes
        if "+" in m:
            raise UnmodelledSyscall("mode %r" % mode)
        if path in self.dirs:
            raise IsADirectoryError(errno.EISDIR, "Is a directory", path)
        parent = posixpath.dirname(path)
        if parent not in self.dirs:
            self._op("open-" + kind, path, 0)
            raise FileNotFoundError(errno.ENOENT, "No such file or directory", path)
        if kind == "x" and path in self.files:
            self._op("open-x", path, 0)
            raise FileExistsError(errno.EEXIST, "File exists", path)
        self._op("open-" + kind, path, 0)
        if kind in ("w", "x") or path not in self.files:
            # truncation / creation is immediate (durable)
            self.files[path] = bytearray()
            self.mtime[path] = self.clock.now
        f = SimFile(self, path, m, self.epoch)
        self.open_files.append(f)
        return f

    # -- os-level operations -----------------------------------------------------
    def exists(self, path):
        path = self.norm(path)
        self._op("exists", path, 0)
        return path in self.files or path in self.dirs

    def isfile(self, path):
        path = self.norm(path)
        self._op("isfile", path, 0)
        return path in self.files

    def isdir(self, path):
        path = self.norm(path)
        self._op("isdir", path, 0)
        return path in self.dirs

    def access(self, path, mode):
        path = self.norm(path)
        self._op("access", path, 0)
        return path in self.files or path in self.dirs

    def getmtime(self, path):
        path = self.norm(path)
        self._op("getmtime", path, 0)
        if path in self.files:
            return float(self.mtime[path]) / self.ticks_per_second
        if path in self.dirs:
            return 0.0
        raise FileNotFoundError(errno.ENOENT, "No such file or directory", path)

    def stat(self, path):
        """os.stat: whole seconds in the tuple, the exact time in st_mtime"""
        path = self.norm(path)
        self._op("stat", path, 0)
        if path in self.files:
            t = float(self.mtime[path]) / self.ticks_per_second
            size = len(self.files[path])
            mode = 0o100644
        elif path in self.dirs:
            t, size, mode = 0.0, 0, 0o040755
        else:
            raise FileNotFoundError(errno.ENOENT, "No such file or directory", path)
        return _real_os.stat_result((mode, 0, 0, 1, 0, 0, size, int(t), int(t), int(t), t, t, t))

    def getsize(self, path):
        path = self.norm(path)
        self._op("getsize", path, 0)
        if path in self.files:
            return len(self.files[path])
        raise FileNotFoundError(errno.ENOENT, "No such file or directory", path)

    def remove(self, path):
        path = self.norm(path)
        if self.crashed:
            return  # a dead process changes nothing
        self._op("remove", path, 0)
        if path in self.dirs:
            raise IsADirectoryError(errno.EISDIR, "Is a directory", path)
        if path not in self.files:
            raise FileNotFoundError(errno.ENOENT, "No such file or directory", path)
        del self.files[path]
        self.mtime.pop(path, None)

    def replace(self, src, dst):
        src = self.norm(src)
        dst = self.norm(dst)
        if self.crashed:
            return  # a dead process changes nothing
        self._op("replace", src + " -> " + dst, 0)
        if src not in self.files:
            raise FileNotFoundError(errno.ENOENT, "No such file or directory", src)
        if dst in self.dirs:
            raise IsADirectoryError(errno.EISDIR, "Is a directory", dst)
        if posixpath.dirname(dst) not in self.dirs:
            raise FileNotFoundError(errno.ENOENT, "No such file or directory", dst)
        self.files[dst] = self.files.pop(src)
        self.mtime[dst] = self.mtime.pop(src, self.clock.now)
        # open writers keep writing to the same inode
        for f in self.open_files:
            if f.name == src:
                f.name = dst

    def makedirs(self, path, mode=0o777, exist_ok=False):
        path = self.norm(path)
        if self.crashed:
            return
        if path in self.dirs:
            self._op("makedirs-exists", path, 0)
            if exist_ok:
                return
            raise FileExistsError(errno.EEXIST, "File exists", path)
        self._op("makedirs", path, 0)
        if path in self.files:
            raise FileExistsError(errno.EEXIST, "File exists", path)
        parts = path.strip("/").split("/")
        cur = ""
        for p in parts:
            cur = cur + "/" + p
            if cur in self.files:
                raise NotADirectoryError(errno.ENOTDIR, "Not a directory", cur)
            self.dirs.add(cur)

    def mkdir(self, path, mode=0o777):
        path = self.norm(path)
        self._op("mkdir", path, 0)
        if path in self.dirs or path in self.files:
            raise FileExistsError(errno.EEXIST, "File exists", path)
        if posixpath.dirname(path) not in self.dirs:
            raise FileNotFoundError(errno.ENOENT, "No such file or directory", path)
        self.dirs.add(path)

    def listdir(self, path="."):
        path = self.norm(path)
        self._op("listdir", path, 0)
        if path not in self.dirs:
            raise FileNotFoundError(errno.ENOENT, "No such file or directory", path)
        pref = path.rstrip("/") + "/"
        names = set()
        for p in list(self.files) + list(self.dirs):
            if p.startswith(pref) and p != path:
                names.add(p[len(pref):].split("/")[0])
        return sorted(names)

    # -- access by simulated child processes (logged, stamped) -------------------
    def child_read(self, path):
        path = self.norm(path)
        self.opcount += 1
        self.oplog.append(("child-read", path, 0, self.clock.now))
        if self.log is not None:
            self.log.ev("fs", "child-read", path, 0, self.clock.now)
        if path in self.files:
            return bytes(self.files[path])
        return None

    def child_write(self, path, data):
        path = self.norm(path)
        if isinstance(data, str):
            data = data.encode("utf-8")
        self.opcount += 1
        inc = self._tick_draw() if self._tick_draw else 1
        self.clock.tick(inc)
        self.oplog.append(("child-write", path, len(data), self.clock.now))
        if self.log is not None:
            self.log.ev("fs", "child-write", path, len(data), self.clock.now)
        if posixpath.dirname(path) not in self.dirs:
            return False
        self.files[path] = bytearray(data)
        self.mtime[path] = self.clock.now
        return True

    # -- harness-side access (not logged, not part of the seam) ------------------
    def peek(self, path):
        path = self.norm(path)
        if path in self.files:
            return bytes(self.files[path])
        return None

    def poke(self, path, data):
        """Harness-side creation of a file (directories included)."""
        path = self.norm(path)
        parts = posixpath.dirname(path).strip("/").split("/")
        cur = ""
        for p in parts:
            if p:
                cur = cur + "/" + p
                self.dirs.add(cur)
        if isinstance(data, str):
            data = data.encode("utf-8")
        self.files[path] = bytearray(data)
        self.mtime[path] = self.clock.tick(1)

    def delete(self, path):
        path = self.norm(path)
        self.files.pop(path, None)
        self.mtime.pop(path, None)

    def image(self):
        """Durable state as a plain dictionary path -> bytes."""
        return dict((p, bytes(b)) for p, b in sorted(self.files.items()))

    def mutations(self, since=0):
        return [e for e in self.oplog[since:]
                if e[0] in ("open-w", "open-a", "open-x", "write", "flush", "remove",
                            "replace", "makedirs", "mkdir", "child-write")]


class _SimPath(object):
    """os.path facade: pure helpers are the real ones, stateful ones hit SimFS."""

    def __init__(self, fs):
        self._fs = fs
        self.exists = fs.exists
        self.isfile = fs.isfile
        self.isdir = fs.isdir
        self.getmtime = fs.getmtime
        self.getsize = fs.getsize
        self.lexists = fs.exists

    join = staticmethod(posixpath.join)
    dirname = staticmethod(posixpath.dirname)
    basename = staticmethod(posixpath.basename)
    isabs = staticmethod(posixpath.isabs)
    split = staticmethod(posixpath.split)
    splitext = staticmethod(posixpath.splitext)
    normpath = staticmethod(posixpath.normpath)
    splitdrive = staticmethod(posixpath.splitdrive)
    commonprefix = staticmethod(posixpath.commonprefix)
    commonpath = staticmethod(posixpath.commonpath)
    expanduser = staticmethod(lambda p: p)
    expandvars = staticmethod(lambda p: p)
    sep = "/"
    altsep = None
    extsep = "."
    pardir = ".."
    curdir = "."

    def realpath(self, path, **kwargs):
        return self._fs.norm(path)

    def relpath(self, path, start=None):
        return posixpath.relpath(self._fs.norm(path), self._fs.norm(start or "."))

    def samefile(self, a, b):
        return self._fs.norm(a) == self._fs.norm(b)

    def abspath(self, path):
        return self._fs.norm(path)

    def __getattr__(self, name):
        raise UnmodelledSyscall("os.path.%s" % name)


class SimGlob(object):
    """The `glob` module (or the function `glob.glob`) as seen by the code under test:
    patterns are matched against the simulated tree, component by component."""

    def __init__(self, fs):
        self._fs = fs

    escape = staticmethod(_real_glob.escape)
    has_magic = staticmethod(_real_glob.has_magic)

    def glob(self, pathname, *, root_dir=None, dir_fd=None, recursive=False, include_hidden=False):
        fs = self._fs
        pat = pathname if root_dir is None else posixpath.join(root_dir, pathname)
        apat = fs.norm(pat)
        fs._op("glob", apat, 0)
        pparts = apat.strip("/").split("/")
        found = []
        for path in sorted(set(fs.files) | set(fs.dirs)):
            parts = path.strip("/").split("/")
            if path == "/" or not self._match(parts, pparts, recursive, include_hidden):
                continue
            found.append(path)
        if posixpath.isabs(pathname) and root_dir is None:
            return found
        base = fs.norm(root_dir or ".").rstrip("/") + "/"
        return [f[len(base):] if f.startswith(base) else f for f in found]

    def iglob(self, pathname, **kwargs):
        return iter(self.glob(pathname, **kwargs))

    __call__ = glob

    @staticmethod
    def _match(parts, pparts, recursive, include_hidden):
        if not pparts:
            return not parts
        head = pparts[0]
        if recursive and head == "**":
            return any(SimGlob._match(parts[i:], pparts[1:], recursive, include_hidden)
                       for i in range(len(parts) + 1))
        if not parts:
            return False
        if _real_glob.has_magic(head):
            if parts[0].startswith(".") and not head.startswith(".") and not include_hidden:
                return False
            if not fnmatch.fnmatchcase(parts[0], head):
                return False
        elif parts[0] != head:
            return False
        return SimGlob._match(parts[1:], pparts[1:], recursive, include_hidden)

    def __getattr__(self, name):
        raise UnmodelledSyscall("glob.%s" % name)


class SimTempfile(object):
    """Facade for the ``tempfile`` module on the simulated disk (installed only in a lena module
    that imports tempfile).  Names are made from a counter of the simulated disk and the pid of
    the running simulated process: unique, as the real ones are, and a function of the tape."""

    def __init__(self, fs, os_facade):
        self._fs = fs
        self._os = os_facade
        self.tempdir = None

    def gettempdir(self):
        if "/tmp" not in self._fs.dirs:
            self._fs.makedirs("/tmp", exist_ok=True)
        return "/tmp"

    def _name(self, suffix, prefix, dir):
        fs = self._fs
        fs._tmp_serial = getattr(fs, "_tmp_serial", 0) + 1
        base = "%s%dx%04d%s" % ("tmp" if prefix is None else prefix, self._os.pid,
                                fs._tmp_serial, "" if suffix is None else suffix)
        return posixpath.join(self.gettempdir() if dir is None else dir, base)

    def mktemp(self, suffix="", prefix="tmp", dir=None):
        return self._name(suffix, prefix, dir)

    def mkstemp(self, suffix=None, prefix=None, dir=None, text=False):
        path = self._name(suffix, prefix, dir)
        f = self._fs.open(path, "xb")
        f.close()
        return self._os._new_fd(path), path

    def mkdtemp(self, suffix=None, prefix=None, dir=None):
        path = self._name(suffix, prefix, dir)
        self._fs.mkdir(path)
        return path

    def NamedTemporaryFile(self, mode="w+b", buffering=-1, encoding=None, newline=None,
                           suffix=None, prefix=None, dir=None, delete=True, **kwargs):
        path = self._name(suffix, prefix, dir)
        m = mode.replace("+", "") if mode.replace("b", "").replace("t", "") == "w+" else mode
        f = self._fs.open(path, m.replace("w", "x") if "w" in m else m)
        if delete:
            return _DeleteOnClose(f, self._fs, path)
        return f

    def __getattr__(self, name):
        raise UnmodelledSyscall("tempfile.%s" % name)


class _DeleteOnClose(object):
    def __init__(self, f, fs, path):
        self._f, self._fs, self._path = f, fs, path
        self.name = f.name

    def __getattr__(self, name):
        return getattr(self._f, name)

    def close(self):
        if not self._f.closed:
            self._f.close()
            if self._fs.exists(self._path):
                self._fs.remove(self._path)

    def __enter__(self):
        return self

    def __exit__(self, *exc):
        self.close()
        return False


class SimOS(object):
    """The `os` module as seen by the code under test."""

    R_OK = _real_os.R_OK
    W_OK = _real_os.W_OK
    X_OK = _real_os.X_OK
    F_OK = _real_os.F_OK
    sep = "/"
    linesep = "\n"
    curdir = "."
    pardir = ".."
    extsep = "."
    altsep = None
    pathsep = ":"
    name = "posix"
    error = OSError
    devnull = "/dev/null"

    def __init__(self, fs):
        self._fs = fs
        self.path = _SimPath(fs)
        self.access = fs.access
        self.remove = fs.remove
        self.unlink = fs.remove
        self.replace = fs.replace
        self.rename = fs.replace
        self.makedirs = fs.makedirs
        self.mkdir = fs.mkdir
        self.listdir = fs.listdir
        self.stat = fs.stat
        self.lstat = fs.stat
        self.environ = {}
        # the process that is running right now (the simulator switches it, see c18.Procs)
        self.pid = 4242
        self._fds = {}

    def getcwd(self):
        return self._fs.CWD

    def getpid(self):
        return self.pid

    def fspath(self, p):
        return p

    def fsync(self, fd):
        return None

    # file descriptors exist only as far as tempfile.mkstemp needs them
    def _new_fd(self, path):
        fd = 100 + len(self._fds)
        self._fds[fd] = path
        return fd

    def fdopen(self, fd, mode="r", *args, **kwargs):
        path = self._fds.get(fd)
        if path is None:
            raise UnmodelledSyscall("os.fdopen of a descriptor the simulation did not hand out")
        m = mode.replace("+", "")
        if m.replace("b", "").replace("t", "") == "w":
            # the file exists and is empty: opening it for writing keeps it
            return self._fs.open(path, m)
        return self._fs.open(path, m)

    def close(self, fd):
        if fd not in self._fds:
            raise OSError(errno.EBADF, "Bad file descriptor")
        self._fds[fd] = None

    def __getattr__(self, name):
        raise UnmodelledSyscall("os.%s" % name)
