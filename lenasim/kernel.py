"""Kernel of the simulator: choice tape, event log, digests, step budget,
verdict records.

A run is a pure function  tape -> RunResult.  Nothing here (or in any
property module) may touch a PRNG, a clock, id(), hash() of strings or
dictionary order of sets directly.
"""
import hashlib
import os
import random
import sys
import traceback

from . import LENA_REPO


# --------------------------------------------------------------------------
# seeds

def run_seed(verif_seed, prop, index):
    """Stable mix of (VERIF_SEED, property, run index) -> 64-bit run seed."""
    h = hashlib.sha256(("%d:%s:%d" % (verif_seed, prop, index)).encode()).digest()
    return int.from_bytes(h[:8], "big")


# --------------------------------------------------------------------------
# the tape

class Tape(object):
    """Every decision of a run is a draw from the tape.

    generate mode: backed by random.Random(seed); records every draw.
    replay mode:   reads a recorded list (value mod n; 0 once exhausted).
    """

    __slots__ = ("_rng", "_replay", "rec", "pos", "sweeps")

    def __init__(self, seed=None, replay=None):
        if replay is not None:
            self._replay = list(replay)
            self._rng = None
        else:
            self._replay = None
            self._rng = random.Random(seed)
        self.rec = []
        self.pos = 0
        self.sweeps = []   # (position, n) of draws marked for sweeping

    def draw(self, n, label=None, sweep=False):
        """Integer in [0, n).  n <= 1 consumes nothing.  sweep=True marks
        the draw as a fault position that the thorough tier enumerates."""
        if n <= 1:
            return 0
        if sweep:
            self.sweeps.append((self.pos, n))
        if self._replay is not None:
            if self.pos < len(self._replay):
                v = self._replay[self.pos] % n
            else:
                v = 0
        else:
            v = self._rng.randrange(n)
        self.pos += 1
        self.rec.append(v)
        return v

    def choice(self, seq, label=None):
        return seq[self.draw(len(seq), label)]

    def chance(self, num, den, label=None):
        """True with probability num/den; 0 on the tape means False."""
        return self.draw(den, label) >= den - num

    def weighted(self, pairs, label=None):
        """pairs: [(weight, item), ...] ordered simplest first."""
        total = 0
        for w, _ in pairs:
            total += w
        v = self.draw(total, label)
        for w, item in pairs:
            if v < w:
                return item
            v -= w
        return pairs[-1][1]

    def subset(self, seq, num=1, den=2, label=None):
        return [x for x in seq if self.chance(num, den, label)]

    def shuffle_merge(self, a, b, label=None):
        """A drawn interleaving of lists a and b (relative orders kept)."""
        ia = ib = 0
        out = []
        while ia < len(a) and ib < len(b):
            if self.draw(2, label):
                out.append(b[ib])
                ib += 1
            else:
                out.append(a[ia])
                ia += 1
        out.extend(a[ia:])
        out.extend(b[ib:])
        return out


# --------------------------------------------------------------------------
# exceptions of the harness

class HarnessError(Exception):
    """Something is wrong with the machinery (never a verdict)."""


class UnmodelledSyscall(HarnessError):
    pass


class StepBudgetExceeded(BaseException):
    """Raised by the deterministic watchdog inside a runaway frame.

    BaseException, so that `except Exception` in the code under test
    cannot swallow it.
    """


class PullBudgetExceeded(BaseException):
    """An eager element pulled more from an infinite source than allowed."""


class Boom(Exception):
    """The injected ordinary exception."""


# --------------------------------------------------------------------------
# event log

class Log(object):
    __slots__ = ("events", "abstract")

    def __init__(self):
        self.events = []
        self.abstract = []

    def ev(self, *entry):
        self.events.append(entry)

    def __len__(self):
        return len(self.events)

    def digest(self):
        return hashlib.sha256(repr(self.events).encode()).hexdigest()

    def abstract_digest(self, width=2):
        """Digest of the event-kind sequence (payloads dropped): the
        'distinct interleavings' measure.  Keeps the first *width*
        fields of each event when they are strings (kind, boundary /
        probe name)."""
        parts = []
        for e in self.events:
            k = []
            for f in e[:width]:
                if isinstance(f, str):
                    k.append(f)
                else:
                    break
            parts.append(tuple(k))
        h = hashlib.sha256(repr(parts).encode()).digest()
        return int.from_bytes(h[:8], "big")


# --------------------------------------------------------------------------
# result of one run

_ADDR = __import__("re").compile(r"0x[0-9a-fA-F]{6,}")


class RunResult(object):
    __slots__ = ("violations", "log", "scenario", "faults", "probes",
                 "nontrivial", "ticks", "beyond", "tape", "sweeps")

    def __init__(self):
        self.violations = []   # [(signature, detail)] in causal order
        self.log = Log()
        self.scenario = []     # human readable lines
        self.faults = {}       # fault kind -> times actually injected
        self.probes = {}       # rare-condition probes
        self.nontrivial = False
        self.ticks = 0
        self.beyond = {}       # beyond-quantifier observations (never a verdict)
        self.tape = None
        self.sweeps = []

    def viol(self, signature, detail=""):
        # object addresses in reprs would break replay digests
        detail = _ADDR.sub("0x?", str(detail))
        signature = _ADDR.sub("0x?", signature)
        for s, _ in self.violations:
            if s == signature:
                return
        self.violations.append((signature, str(detail)))
        self.log.ev("viol", signature, str(detail))

    def fault(self, kind, n=1):
        self.faults[kind] = self.faults.get(kind, 0) + n

    def probe(self, name, n=1):
        self.probes[name] = self.probes.get(name, 0) + n

    def say(self, line):
        self.scenario.append(line)

    def signatures(self):
        return [s for s, _ in self.violations]


# --------------------------------------------------------------------------
# classification of escaped exceptions

def _frames_of(tb):
    out = []
    while tb is not None:
        out.append(tb.tb_frame.f_code.co_filename)
        tb = tb.tb_next
    return out


_HERE = os.path.dirname(os.path.abspath(__file__))
_SEAMS = os.path.join(_HERE, "seams") + os.sep


def exception_origin(exc):
    """Who is responsible for an exception: walk the traceback from the innermost frame
    outwards, skipping the seams (they answer calls the way the environment would: an OSError
    from the simulated disk, a TypeError for bytes written to a text file, a probe object that
    refuses to be formatted) and the standard library; the first frame that lies in the lena
    under test means 'lena', one in the property modules or the kernel means 'harness'."""
    if isinstance(exc, HarnessError):
        # the simulation does not model what the code asked for: never a verdict about lena
        return "harness"
    files = _frames_of(exc.__traceback__)
    for fn in reversed(files):
        fn = os.path.abspath(fn)
        if fn.startswith(_SEAMS):
            continue
        if fn.startswith(LENA_REPO + os.sep):
            return "lena"
        if fn.startswith(_HERE + os.sep):
            return "harness"
        # standard library / third party: keep walking outwards
    return "harness"


def exception_site(exc):
    """module:function of the innermost lena frame (stable, no line numbers)."""
    tb = exc.__traceback__
    site = "?"
    while tb is not None:
        fn = os.path.abspath(tb.tb_frame.f_code.co_filename)
        if fn.startswith(LENA_REPO + os.sep):
            rel = os.path.relpath(fn, LENA_REPO)
            site = "%s:%s" % (rel[:-3].replace(os.sep, "."), tb.tb_frame.f_code.co_name)
        tb = tb.tb_next
    return site


def execute(prop_module, tape):
    """Run one scenario; classify whatever escapes it."""
    try:
        res = prop_module.run(tape)
    except HarnessError:
        raise
    except (StepBudgetExceeded, PullBudgetExceeded) as exc:
        raise HarnessError("budget exception escaped the executor: %r" % (exc,))
    except Exception as exc:  # noqa: BLE001
        if exception_origin(exc) == "lena":
            res = RunResult()
            res.say("scenario aborted by an exception out of lena code")
            res.say("".join(traceback.format_exception(type(exc), exc, exc.__traceback__)))
            res.viol("%s:unexpected-exception:%s@%s" % (
                prop_module.PROPERTY, type(exc).__name__, exception_site(exc)),
                repr(exc))
        else:
            raise HarnessError("".join(
                traceback.format_exception(type(exc), exc, exc.__traceback__)))
    res.tape = list(tape.rec)
    res.sweeps = list(tape.sweeps)
    return res


# --------------------------------------------------------------------------
# deterministic step budget (line-count watchdog)

class StepBudget(object):
    """Context manager: count executed Python lines via sys.settrace and
    raise StepBudgetExceeded inside the runaway frame when the budget is
    used up.  Deterministic: the same code executes the same lines."""

    def __init__(self, budget=200000):
        self.budget = budget
        self.used = 0
        self._old = None

    def _trace(self, frame, event, arg):
        if event == "line":
            self.used += 1
            if self.used > self.budget:
                raise StepBudgetExceeded(self.used)
        return self._trace

    def __enter__(self):
        self._old = sys.gettrace()
        self.used = 0
        sys.settrace(self._trace)
        # frames already on the stack are not traced unless f_trace is set;
        # new calls made inside the with-block are.
        return self

    def __exit__(self, *exc):
        sys.settrace(self._old)
        return False


def summarize(obj, depth=0):
    """Primitive, address-free summary of a value for the log."""
    if obj is None or isinstance(obj, (bool, int, str)):
        return obj
    if isinstance(obj, float):
        return repr(obj)
    if isinstance(obj, (tuple, list)):
        if depth > 4:
            return "..."
        t = tuple(summarize(x, depth + 1) for x in obj)
        return t if isinstance(obj, tuple) else ("list",) + t
    if isinstance(obj, dict):
        if depth > 4:
            return "{...}"
        try:
            items = sorted(obj.items(), key=lambda kv: repr(kv[0]))
        except Exception:  # noqa: BLE001
            items = list(obj.items())
        return ("dict",) + tuple((summarize(k, depth + 1), summarize(v, depth + 1))
                                 for k, v in items)
    s = getattr(obj, "_sim_summary", None)
    if s is not None:
        return s()
    return "<%s>" % type(obj).__name__


def _quiet_unraisable(unraisable):
    """Finalisers of abandoned generators may run into the simulator's own
    BaseExceptions (a crashed disk, an exhausted budget); that is expected
    and must not spam stderr.  Everything else keeps the default report."""
    name = type(unraisable.exc_value).__name__ if unraisable.exc_value is not None else ""
    if name in ("ProcessCrash", "StepBudgetExceeded", "PullBudgetExceeded"):
        return
    sys.__unraisablehook__(unraisable)


sys.unraisablehook = _quiet_unraisable
