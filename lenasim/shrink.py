"""Generic tape minimiser.

Every run is a pure function of its tape, so shrinking is generic:
delete blocks of draws, zero a draw, halve / decrement a draw; a
candidate is accepted iff the run still yields a violation with the same
signature.
"""
from .kernel import Tape, execute


def _still(prop_module, tape_list, signature):
    t = Tape(replay=tape_list)
    res = execute(prop_module, t)
    if signature in res.signatures():
        # the consumed, normalised prefix is the canonical form
        return list(t.rec), res
    return None, None


def shrink(prop_module, tape_list, signature, budget=2000):
    """Return (minimised tape, RunResult of it, candidates tried)."""
    best, best_res = _still(prop_module, tape_list, signature)
    if best is None:
        raise RuntimeError("tape does not reproduce %s" % signature)
    tried = 1

    def better(cand):
        # shorter is simpler; then lexicographically smaller sum
        return (len(cand), sum(cand), cand) < (len(best), sum(best), best)

    progress = True
    while progress and tried < budget:
        progress = False
        # 1. delete blocks
        size = 8
        while size >= 1 and tried < budget:
            i = len(best) - size
            while i >= 0 and tried < budget:
                cand = best[:i] + best[i + size:]
                tried += 1
                got, res = _still(prop_module, cand, signature)
                if got is not None and better(got):
                    best, best_res = got, res
                    progress = True
                    i = min(i, len(best) - size)
                else:
                    i -= 1
            size //= 2
        # 2. zero, halve, decrement each draw
        i = 0
        while i < len(best) and tried < budget:
            v = best[i]
            if v:
                for nv in (0, v // 2, v - 1):
                    if nv == v or nv < 0:
                        continue
                    cand = best[:i] + [nv] + best[i + 1:]
                    tried += 1
                    got, res = _still(prop_module, cand, signature)
                    if got is not None and better(got):
                        best, best_res = got, res
                        progress = True
                        break
            i += 1
    # strip trailing zeros (an exhausted tape reads as zeros)
    while best and best[-1] == 0:
        cand = best[:-1]
        got, res = _still(prop_module, cand, signature)
        tried += 1
        if got is None:
            break
        # got may re-append zeros as consumed; compare by given candidate
        best, best_res = cand, res
        if tried >= budget + 50:
            break
    return best, best_res, tried
