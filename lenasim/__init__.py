"""lenasim: deterministic simulation with fault injection for ynikitenko/lena.

See /verif/DESIGN.md.  Importing this package puts the lena under test
(LENA_REPO, default /repo) first on sys.path and checks that it is the
one that gets imported.
"""
import os
import sys
import warnings

LENA_REPO = os.path.abspath(os.environ.get("LENA_REPO", "/repo"))

if LENA_REPO not in sys.path[:1]:
    sys.path.insert(0, LENA_REPO)

# "once"/"default" warning registries are process global and would make
# the first run of a worker differ from the later ones.
warnings.simplefilter("ignore")

import lena  # noqa: E402

_lena_file = os.path.abspath(getattr(lena, "__file__", None) or list(lena.__path__)[0])
if not _lena_file.startswith(LENA_REPO + os.sep):
    raise ImportError(
        "lena was imported from %s, not from LENA_REPO=%s" % (_lena_file, LENA_REPO)
    )
