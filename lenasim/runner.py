"""Seeded search over runs on all cores, known findings, replay files,
evidence.

Exit codes of a check: 0 held / only known findings; 1 + VIOLATION line;
2 harness error (HARNESS-ERROR line, never a verdict).
"""
import concurrent.futures
import faulthandler
import importlib
import json
import multiprocessing
import os
import signal
import subprocess
import sys
import time

from . import LENA_REPO
from .kernel import Tape, run_seed, execute, HarnessError
from .shrink import shrink

VERIF_DIR = os.path.dirname(os.path.dirname(os.path.abspath(__file__)))
KNOWN_FINDINGS = os.path.join(VERIF_DIR, "known_findings.json")
DISTINCT_CAP = 3000000
PER_RUN_WALL_S = 30


def load_prop(prop_id):
    return importlib.import_module("lenasim.props.%s" % prop_id.lower())


def load_known(prop_id):
    """signature -> description, for entries of this property with
    status 'known' (a 'fixed' entry suppresses nothing)."""
    try:
        with open(KNOWN_FINDINGS) as f:
            data = json.load(f)
    except FileNotFoundError:
        return {}
    out = {}
    for ent in data.get("findings", []):
        if ent.get("property") == prop_id and ent.get("status") == "known":
            out[ent["signature"]] = ent.get("what", "")
    return out


def sig_known(sig, known):
    return sig in known


class _Alarm(Exception):
    pass


def _on_alarm(signum, frame):
    raise _Alarm()


def run_index(prop, verif_seed, index):
    tape = Tape(seed=run_seed(verif_seed, prop.PROPERTY, index))
    return execute(prop, tape)


SWEEP_MAX_POSITIONS = 6
SWEEP_MAX_VALUES = 16


def sweep_variants(res):
    """Fault enumeration inside a sampled workload: for every draw marked
    as a fault position, the same tape with that draw set to every other
    value of its range."""
    base = res.tape
    for pos, n in res.sweeps[:SWEEP_MAX_POSITIONS]:
        if pos >= len(base):
            continue
        for v in range(min(n, SWEEP_MAX_VALUES)):
            if v != base[pos]:
                yield base[:pos] + [v] + base[pos + 1:]


def _chunk(args):
    prop_id, verif_seed, lo, hi, tier = args
    faulthandler.enable()
    prop = load_prop(prop_id)
    if hasattr(prop, "set_tier"):
        prop.set_tier(tier)
    out = {
        "n": 0, "faults": {}, "probes": {}, "distinct": set(), "nontrivial": 0,
        "steps": 0, "ticks": 0, "viol": {}, "samples": [], "harness": None,
        "beyond": {}, "digests": {}, "_aw": getattr(prop, "ABSTRACT_WIDTH", 2),
    }
    signal.signal(signal.SIGALRM, _on_alarm)
    for i in range(lo, hi):
        signal.alarm(PER_RUN_WALL_S)
        try:
            res = run_index(prop, verif_seed, i)
        except HarnessError as exc:
            signal.alarm(0)
            out["harness"] = "run %d: %s" % (i, exc)
            break
        except _Alarm:
            out["harness"] = "run %d: wall-clock backstop (%d s) hit" % (i, PER_RUN_WALL_S)
            break
        finally:
            signal.alarm(0)
        results = [res]
        if tier == "thorough" and getattr(prop, "SWEEP", False):
            try:
                for vt in sweep_variants(res):
                    signal.alarm(PER_RUN_WALL_S)
                    results.append(execute(prop, Tape(replay=vt)))
                    out["sweep_runs"] = out.get("sweep_runs", 0) + 1
            except HarnessError as exc:
                out["harness"] = "sweep of run %d: %s" % (i, exc)
                break
            except _Alarm:
                out["harness"] = "sweep of run %d: wall-clock backstop hit" % i
                break
            finally:
                signal.alarm(0)
        out["n"] += 1
        _account(out, results, i, lo)
    return out


def _account(out, results, i, lo):
    for j, res in enumerate(results):
        base = (j == 0)
        for k, v in res.faults.items():
            out["faults"][k] = out["faults"].get(k, 0) + v
        for k, v in res.probes.items():
            out["probes"][k] = out["probes"].get(k, 0) + v
        for k, v in res.beyond.items():
            out["beyond"][k] = out["beyond"].get(k, 0) + v
        out["steps"] += len(res.log)
        out["ticks"] += res.ticks
        if res.nontrivial:
            out["nontrivial"] += 1
            if len(out["distinct"]) < DISTINCT_CAP:
                out["distinct"].add(res.log.abstract_digest(out["_aw"]))
        if base and (i == lo or (i - lo) == 1):
            out["samples"].append({"run_index": i, "scenario": res.scenario[:40]})
        if base and i % 997 == 0:
            out["digests"][i] = res.log.digest()
        for sig, detail in res.violations:
            ent = out["viol"].get(sig)
            if ent is None:
                out["viol"][sig] = {"count": 1, "first": i, "tape": res.tape,
                                    "detail": detail}
            else:
                ent["count"] += 1


def _git_head(repo):
    try:
        rev = subprocess.run(["git", "-C", repo, "rev-parse", "--short", "HEAD"],
                             capture_output=True, text=True, timeout=20).stdout.strip()
        dirty = subprocess.run(["git", "-C", repo, "status", "--porcelain", "--", "lena"],
                               capture_output=True, text=True, timeout=20).stdout.strip()
        return rev + ("+dirty" if dirty else "")
    except Exception:  # noqa: BLE001
        return "unknown"


def write_replay(prop, sig, verif_seed, index, tier, tape_list, unshrunk_len, res, tried):
    rdir = os.environ.get("VERIF_REPLAY_DIR") or os.path.join(VERIF_DIR, "replays")
    os.makedirs(rdir, exist_ok=True)
    name = "%s-%s-%d-%d.json" % (
        prop.PROPERTY,
        "".join(c if (c.isalnum() or c in "-_.") else "_" for c in sig.split(":", 1)[-1])[:100],
        verif_seed, index)
    path = os.path.join(rdir, name)
    detail = ""
    for s, d in res.violations:
        if s == sig:
            detail = d
    data = {
        "property": prop.PROPERTY, "signature": sig,
        "verif_seed": verif_seed, "run_index": index, "tier": tier,
        "tape": tape_list, "tape_unshrunk_len": unshrunk_len,
        "shrink_candidates_tried": tried,
        "lena_repo": LENA_REPO, "lena_head": _git_head(LENA_REPO),
        "scenario": res.scenario, "failing_event": detail,
        "all_signatures": res.signatures(),
        "digest": res.log.digest(),
    }
    with open(path, "w") as f:
        json.dump(data, f, indent=1)
    return path


def search(prop_id, tier, verif_seed, n_runs=None, workers=None, quiet=False):
    t0 = time.time()
    prop = load_prop(prop_id)
    if hasattr(prop, "set_tier"):
        prop.set_tier(tier)
    if n_runs is None:
        n_runs = prop.N_RUNS[tier]
    env_n = os.environ.get("VERIF_RUNS")
    if env_n:
        n_runs = int(env_n)
    workers = workers or int(os.environ.get("VERIF_WORKERS", "0")) or min(16, os.cpu_count() or 1)
    chunk = max(1, min(2000, n_runs // (workers * 4) or 1))
    tasks = []
    lo = 0
    while lo < n_runs:
        hi = min(n_runs, lo + chunk)
        tasks.append((prop_id, verif_seed, lo, hi, tier))
        lo = hi
    print("VERIF_SEED=%d property=%s tier=%s runs=%d workers=%d lena=%s (%s)" % (
        verif_seed, prop_id, tier, n_runs, workers, LENA_REPO, _git_head(LENA_REPO)))
    sys.stdout.flush()

    agg = {"sweep_runs": 0, "n": 0, "faults": {}, "probes": {}, "distinct": set(), "nontrivial": 0,
           "steps": 0, "ticks": 0, "viol": {}, "samples": [], "beyond": {},
           "digests": {}}
    harness = []
    ctx = multiprocessing.get_context("fork")
    if workers == 1:
        results = map(_chunk, tasks)
        pool = None
    else:
        pool = concurrent.futures.ProcessPoolExecutor(max_workers=workers, mp_context=ctx)
        results = pool.map(_chunk, tasks)
    try:
        for out in results:
            agg["n"] += out["n"]
            agg["sweep_runs"] += out.get("sweep_runs", 0)
            for key in ("faults", "probes", "beyond"):
                for k, v in out[key].items():
                    agg[key][k] = agg[key].get(k, 0) + v
            if len(agg["distinct"]) < DISTINCT_CAP:
                agg["distinct"] |= out["distinct"]
            agg["nontrivial"] += out["nontrivial"]
            agg["steps"] += out["steps"]
            agg["ticks"] += out["ticks"]
            agg["digests"].update(out["digests"])
            if len(agg["samples"]) < 4:
                agg["samples"].extend(out["samples"][:1])
            for sig, ent in out["viol"].items():
                cur = agg["viol"].get(sig)
                if cur is None:
                    agg["viol"][sig] = dict(ent)
                else:
                    cur["count"] += ent["count"]
                    if ent["first"] < cur["first"]:
                        cur["first"], cur["tape"], cur["detail"] = (
                            ent["first"], ent["tape"], ent["detail"])
            if out["harness"]:
                harness.append(out["harness"])
    except concurrent.futures.process.BrokenProcessPool as exc:
        harness.append("worker died: %r" % (exc,))
    finally:
        if pool is not None:
            pool.shutdown(wait=True, cancel_futures=True)

    search_wall = time.time() - t0

    # determinism self-check inside the check: re-run the sampled indices in
    # this (different) process and compare the full event-log digests.
    det_checked = det_bad = 0
    for i, d in sorted(agg["digests"].items())[:64]:
        try:
            res = run_index(prop, verif_seed, i)
        except HarnessError as exc:
            harness.append("determinism re-run %d: %s" % (i, exc))
            break
        det_checked += 1
        if res.log.digest() != d:
            det_bad += 1
            harness.append("run %d is not deterministic (digest differs between processes)" % i)

    known = load_known(prop_id)
    known_hit = {}
    new = {}
    for sig, ent in sorted(agg["viol"].items(), key=lambda kv: kv[1]["first"]):
        if sig_known(sig, known):
            known_hit[sig] = ent
        else:
            new[sig] = ent

    replay_paths = []
    max_shrunk = int(os.environ.get("VERIF_SHRINK_SIGNATURES", "4"))
    for nsig, (sig, ent) in enumerate(new.items()):
        try:
            # the earliest few signatures are minimised fully, the others get a
            # small budget (their replay files are valid, only less minimal)
            budget = int(os.environ.get("VERIF_SHRINK_BUDGET", "1500")) if nsig < max_shrunk else 60
            tl, res, tried = shrink(prop, ent["tape"], sig, budget=budget)
        except Exception as exc:  # noqa: BLE001
            harness.append("shrinking %s failed: %r" % (sig, exc))
            continue
        path = write_replay(prop, sig, verif_seed, ent["first"], tier, tl,
                            len(ent["tape"]), res, tried)
        replay_paths.append((sig, path, ent["count"]))

    wall = time.time() - t0
    write_evidence(prop, tier, verif_seed, agg, known_hit, new, wall, search_wall,
                   det_checked, det_bad, workers)

    for sig, ent in known_hit.items():
        print("KNOWN-FINDING: property=%s %s -- %s (hit in %d runs, first run index %d)" % (
            prop_id, sig, known[sig], ent["count"], ent["first"]))
    print("runs=%d nontrivial=%d distinct_interleavings=%d events=%d wall=%.1fs rate=%.0f runs/h" % (
        agg["n"], agg["nontrivial"], len(agg["distinct"]), agg["steps"], wall,
        agg["n"] / max(search_wall, 1e-9) * 3600))
    print("faults injected: %s" % json.dumps(agg["faults"], sort_keys=True))
    print("probes: %s" % json.dumps(agg["probes"], sort_keys=True))
    if harness:
        for h in harness[:5]:
            print("HARNESS-ERROR property=%s %s" % (prop_id, h))
        sys.stdout.flush()
        # a concrete violation with a replay file stands on its own feet (e.g. code under test
        # that keeps state in a module-level object makes runs depend on what ran before in the
        # same worker: the determinism re-run notices that, and the violation is real all the
        # same); without one a harness error is never a verdict
        if not replay_paths:
            return 2
    if replay_paths:
        for sig, path, count in replay_paths:
            print("signature=%s runs_hit=%d" % (sig, count))
            print("VIOLATION property=%s replay=%s" % (prop_id, path))
        sys.stdout.flush()
        return 1
    print("OK property=%s held on everything explored" % prop_id)
    sys.stdout.flush()
    return 0


def write_evidence(prop, tier, verif_seed, agg, known_hit, new, wall, search_wall,
                   det_checked, det_bad, workers):
    edir = os.environ.get("VERIF_EVIDENCE_DIR") or os.path.join(VERIF_DIR, "evidence")
    os.makedirs(edir, exist_ok=True)
    rate_h = agg["n"] / max(search_wall, 1e-9) * 3600
    zero_probes = sorted(k for k in getattr(prop, "EXPECTED_PROBES", [])
                         if not agg["probes"].get(k))
    zero_faults = sorted(k for k in getattr(prop, "FAULT_KINDS", [])
                         if not agg["faults"].get(k))
    cov = {
        "evaluations": agg["n"] + agg["sweep_runs"],
        "sampled_runs": agg["n"],
        "sweep_runs": agg["sweep_runs"],
        "distinct_nontrivial": len(agg["distinct"]),
        "rule": prop.RULE,
        "samples": agg["samples"][:4],
        "nontrivial_runs": agg["nontrivial"],
        "distinct_measure": ("distinct sha256 digests of the run's abstracted event-kind "
                             "sequence (event kinds and boundary/probe names, payloads "
                             "dropped), counted over non-trivial runs only; capped at %d"
                             % DISTINCT_CAP),
        "runs_per_hour": int(rate_h),
        "seeds_per_hour": int(rate_h),
        "workers": workers,
        "simulated_events": agg["steps"],
        "simulated_ticks": agg["ticks"],
        "faults_injected": dict(sorted(agg["faults"].items())),
        "fault_kinds_never_fired": zero_faults,
        "probes": dict(sorted(agg["probes"].items())),
        "probes_stuck_at_zero": zero_probes,
        "beyond_quantifier": dict(sorted(agg["beyond"].items())),
        "components_real": prop.REAL,
        "components_stub": prop.STUB,
        "trusted_base": list(prop.STUB) + ["lenasim kernel (choice tape, event log, step budget), runner, shrinker"],
        "determinism_selfcheck": {"runs_rerun_in_other_process": det_checked,
                                  "digest_mismatches": det_bad},
        "known_findings_hit": {s: e["count"] for s, e in known_hit.items()},
        "new_violation_signatures": {s: e["count"] for s, e in new.items()},
        "lena_repo": LENA_REPO,
        "lena_head": _git_head(LENA_REPO),
        "exhaustive": False,
    }
    ev = {
        "property_id": prop.PROPERTY,
        "tier": tier,
        "seed": verif_seed,
        "level": prop.LEVEL,
        "coverage": cov,
        "assumptions": prop.ASSUMPTIONS,
        "wall_s": round(wall, 2),
        "violations": len(new),
    }
    path = os.path.join(edir, "%s.json" % prop.PROPERTY)
    tmp = path + ".tmp"
    with open(tmp, "w") as f:
        json.dump(ev, f, indent=1, sort_keys=True)
    os.replace(tmp, path)


def replay(prop_id, path):
    prop = load_prop(prop_id)
    with open(path) as f:
        data = json.load(f)
    if hasattr(prop, "set_tier"):
        prop.set_tier(data.get("tier", "quick"))
    t = Tape(replay=data["tape"])
    try:
        res = execute(prop, t)
    except HarnessError as exc:
        print("HARNESS-ERROR property=%s %s" % (prop_id, exc))
        return 2
    print("replaying %s (signature %s)" % (path, data["signature"]))
    print("scenario:")
    for line in res.scenario:
        print("   " + line)
    print("event log (%d events):" % len(res.log))
    for i, e in enumerate(res.log.events[-int(os.environ.get("VERIF_REPLAY_TAIL", "60")):]):
        print("   %r" % (e,))
    sigs = res.signatures()
    if data["signature"] in sigs:
        same = res.log.digest() == data.get("digest")
        for s, d in res.violations:
            if s == data["signature"]:
                print("failing event: %s" % d)
        print("digest %s" % ("identical to the recorded run" if same else
                             "DIFFERS from the recorded run (tree changed since?)"))
        print("VIOLATION property=%s replay=%s" % (prop_id, path))
        return 1
    print("NOT-REPRODUCED property=%s signature=%s (signatures now: %s)" % (
        prop_id, data["signature"], sigs))
    return 0
