#!/venv/bin/python
"""check.py <ID> [--tier quick|thorough] [--seed N] [--replay FILE] [--runs N]

Deterministic-simulation check of one property of ynikitenko/lena.
cwd-independent; tests the lena found under LENA_REPO (default /repo),
i.e. the current working tree - nothing is built or cached.
"""
import argparse
import os
import sys

HERE = os.path.dirname(os.path.abspath(__file__))


def main():
    ap = argparse.ArgumentParser()
    ap.add_argument("prop")
    ap.add_argument("--tier", default=os.environ.get("VERIF_TIER") or "quick",
                    choices=["quick", "thorough"])
    ap.add_argument("--seed", type=int, default=None)
    ap.add_argument("--replay", default=None)
    ap.add_argument("--runs", type=int, default=None)
    ap.add_argument("--workers", type=int, default=None)
    args = ap.parse_args()

    # one execution per seed: no hash randomisation, no bytecode caches written
    # into the tree under test, the hook guard on.
    if os.environ.get("PYTHONHASHSEED") is None or os.environ.get("LENASIM_REEXEC") != "1":
        env = dict(os.environ)
        env.setdefault("PYTHONHASHSEED", "0")
        env["LENASIM_REEXEC"] = "1"
        env["PYTHONDONTWRITEBYTECODE"] = "1"
        env.setdefault("LENA_VERIF", "1")
        os.execve(sys.executable, [sys.executable, os.path.abspath(__file__)] + sys.argv[1:], env)

    sys.path.insert(0, HERE)
    seed = args.seed
    if seed is None:
        seed = int(os.environ.get("VERIF_SEED") or 0)
    from lenasim import runner
    if args.replay:
        return runner.replay(args.prop.upper(), args.replay)
    return runner.search(args.prop.upper(), args.tier, seed, n_runs=args.runs,
                         workers=args.workers)


if __name__ == "__main__":
    sys.exit(main())
