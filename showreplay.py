import json,sys
for f in sys.argv[1:]:
    d=json.load(open(f))
    print(d['signature'], d['tape'], d['tape_unshrunk_len'], d['shrink_candidates_tried'])
    for l in d['scenario']: print('   ',l)
    print('  =>', d['failing_event'][:900])
