#!/venv/bin/python
"""Determinism self-test of the simulator.

For every claimed property a sample of run indices is executed
  (1) twice in the same process,
  (2) in a fresh interpreter under PYTHONHASHSEED=0,
  (3) in a fresh interpreter under another PYTHONHASHSEED,
  (4) in a fresh interpreter in reversed order (what ran before in the same
      worker must not matter, i.e. results are independent of the worker count
      and of the chunking),
and the full event-log digests are compared.  Exit 0 iff no digest differs.

usage: determinism.py [--n N] [--seed S] [--procs P] [PROP ...]
       determinism.py --emit PROP LO HI [--reverse]        (child mode)
"""
import argparse
import concurrent.futures
import json
import os
import subprocess
import sys

VERIF = os.path.dirname(os.path.dirname(os.path.abspath(__file__)))


def emit(prop_id, seed, lo, hi, reverse, twice):
    sys.path.insert(0, VERIF)
    from lenasim import runner
    from lenasim.kernel import HarnessError
    prop = runner.load_prop(prop_id)
    if hasattr(prop, "set_tier"):
        prop.set_tier("quick")
    idx = list(range(lo, hi))
    if reverse:
        idx.reverse()
    out = {}
    for i in idx:
        try:
            res = runner.run_index(prop, seed, i)
            d = res.log.digest() + ":" + ",".join(res.signatures())
            if twice:
                res2 = runner.run_index(prop, seed, i)
                d2 = res2.log.digest() + ":" + ",".join(res2.signatures())
                if d2 != d:
                    d = "SAME-PROCESS-MISMATCH %s / %s" % (d, d2)
        except HarnessError as e:
            d = "HARNESS-ERROR %s" % (str(e)[-200:],)
        out[str(i)] = d
    return out


def child(prop, seed, lo, hi, reverse, hashseed, twice):
    env = dict(os.environ)
    env["PYTHONHASHSEED"] = str(hashseed)
    env["PYTHONDONTWRITEBYTECODE"] = "1"
    env.setdefault("LENA_VERIF", "1")
    cmd = [sys.executable, os.path.abspath(__file__), "--emit", prop, str(lo), str(hi), "--seed", str(seed)]
    if reverse:
        cmd.append("--reverse")
    if twice:
        cmd.append("--twice")
    r = subprocess.run(cmd, capture_output=True, text=True, env=env, timeout=3000)
    if r.returncode != 0:
        return {"error": r.stderr[-500:]}
    return json.loads(r.stdout.strip().splitlines()[-1])


def main():
    ap = argparse.ArgumentParser()
    ap.add_argument("props", nargs="*")
    ap.add_argument("--emit", nargs=3, metavar=("PROP", "LO", "HI"))
    ap.add_argument("--reverse", action="store_true")
    ap.add_argument("--twice", action="store_true")
    ap.add_argument("--n", type=int, default=400)
    ap.add_argument("--seed", type=int, default=0)
    ap.add_argument("--procs", type=int, default=16)
    args = ap.parse_args()
    if args.emit:
        prop, lo, hi = args.emit
        print(json.dumps(emit(prop, args.seed, int(lo), int(hi), args.reverse, args.twice)))
        return 0
    manifest = json.load(open(os.path.join(VERIF, "MANIFEST.json")))
    props = args.props or [c["property_id"] for c in manifest["checks"]]
    bad = 0
    chunk = max(1, args.n // args.procs)
    jobs = []
    with concurrent.futures.ThreadPoolExecutor(max_workers=args.procs) as pool:
        for prop in props:
            lo = 0
            while lo < args.n:
                hi = min(args.n, lo + chunk)
                for label, rev, hs, twice in (("hash0+twice", False, 0, True), ("hash4242", False, 4242, False),
                                              ("reversed", True, 0, False), ("hash99-reversed", True, 99, False)):
                    jobs.append((prop, lo, hi, label, pool.submit(child, prop, args.seed, lo, hi, rev, hs, twice)))
                lo = hi
        results = {}
        for prop, lo, hi, label, fut in jobs:
            results.setdefault((prop, lo, hi), {})[label] = fut.result()
    for (prop, lo, hi), by in sorted(results.items()):
        base = by["hash0+twice"]
        if "error" in base:
            print("%s [%d,%d) child failed: %s" % (prop, lo, hi, base["error"]))
            bad += 1
            continue
        for i, d in base.items():
            if d.startswith("SAME-PROCESS-MISMATCH") or d.startswith("HARNESS-ERROR"):
                print("%s run %s: %s" % (prop, i, d[:200]))
                bad += 1
        for label, other in by.items():
            if label == "hash0+twice":
                continue
            if "error" in other:
                print("%s [%d,%d) %s child failed: %s" % (prop, lo, hi, label, other["error"]))
                bad += 1
                continue
            for i, d in base.items():
                if other.get(i) != d:
                    print("%s run %s differs under %s" % (prop, i, label))
                    bad += 1
    total = sum(len(by["hash0+twice"]) for by in results.values() if "error" not in by["hash0+twice"])
    print("determinism: %d properties, %d run indices each executed 5 times in 4 interpreters "
          "(PYTHONHASHSEED 0 / 4242 / 99, forward and reversed order): %d mismatches"
          % (len(props), total, bad))
    return 1 if bad else 0


if __name__ == "__main__":
    sys.exit(main())
