#!/venv/bin/python
"""(Re)generate /verif/benign/*.patch: semantics-preserving changes to lena
(refactorings a maintainer could make) under which every property still holds.
`selftest/benign.py` applies each of them to a scratch copy and demands that
every check stays silent: a check that alarms on one of them judges the
implementation, not the property.

Run after /repo changed (the patches are diffs against the current tree)."""
import difflib
import os
import re
import sys

REPO = os.environ.get("LENA_REPO_BASE", "/repo")
OUT = os.path.join(os.path.dirname(os.path.dirname(os.path.abspath(__file__))), "benign")


def sub(path, old, new, count=1):
    def edit(files):
        s = files[path]
        assert s.count(old) == count, (path, old, s.count(old))
        files[path] = s.replace(old, new)
    return edit


def resub(path, pattern, repl):
    def edit(files):
        s, n = re.subn(pattern, repl, files[path])
        assert n > 0, (path, pattern)
        files[path] = s
    return edit


BENIGN = {
    "B01_cache_tmp_suffix": [
        sub("lena/flow/cache.py", 'tmp_filename = "{}.{}.{}.tmp".format(', 'tmp_filename = "{}.{}.{}.part".format(')],
    "B02_fillrequest_buffer_names": [
        resub("lena/core/adapters.py", r"_buffer_in\b", "_inbuf"),
        resub("lena/core/adapters.py", r"_buffer_out\b", "_outbuf")],
    "B03_split_copies_for_last_branch_too": [
        sub("lena/core/split.py", "                if self._copy_buf and n_of_active_seqs - ind > 1:",
            "                if self._copy_buf:")],
    "B04_write_isfile": [
        sub("lena/output/write.py", "            if os.path.exists(filepath):",
            "            if os.path.isfile(filepath):")],
    "B05_histogram_yields_copy": [
        sub("lena/structures/histogram.py",
            "        yield (self._hist, copy.deepcopy(self._cur_context))",
            "        yield (copy.deepcopy(self._hist), copy.deepcopy(self._cur_context))")],
    "B06_sum_new_dict": [
        sub("lena/math/elements.py", "            yield (self._total, copy.deepcopy(self._cur_context))",
            "            yield (self._total, dict(copy.deepcopy(self._cur_context)))", count=2)],
    "B07_zip_drains_with_deque": [
        sub("lena/flow/zip.py",
            "                for res in results:\n                    for _ in res:\n                        pass\n",
            "                for res in results:\n                    collections.deque(res, maxlen=0)\n")],
    "B08_latex_condition_reordered": [
        sub("lena/output/latex_to_pdf.py",
            "            if not self._overwrite and os.path.exists(data) and not changed:",
            "            if (not self._overwrite) and (not changed) and os.path.exists(data):")],
    "B09_count_run_while_loop": [
        sub("lena/flow/elements.py",
            "        count = 1\n        for val in flow:\n            yield prev_val\n            count += 1\n"
            "            prev_val = val\n",
            "        count = 1\n        while True:\n            try:\n                val = next(flow)\n"
            "            except StopIteration:\n                break\n            pending, prev_val = prev_val, val\n"
            "            yield pending\n            count += 1\n")],
    "B10_zip_fill_copies_first": [
        sub("lena/flow/zip.py",
            "    def _fill(self, val):\n        for seq in self._sequences:\n            seq.fill(copy.deepcopy(val))\n",
            # (the builtin zip cannot be used in this module: Zip(fields=...) binds the module-level
            # name given by its *name* argument, "zip" by default, to a namedtuple class)
            "    def _fill(self, val):\n        copies = [copy.deepcopy(val) for _ in self._sequences]\n"
            "        for ind, seq in enumerate(self._sequences):\n            seq.fill(copies[ind])\n")],
    "B11_pdftopng_local_names": [
        sub("lena/output/pdf_to_png.py",
            '                if not os.path.exists(data + "." + self._format)\\\n'
            '                    or self._overwrite or outputc.get("changed", False):',
            '                target = data + "." + self._format\n'
            '                needed = self._overwrite or outputc.get("changed", False)\n'
            '                if needed or not os.path.exists(target):')],
    "B12_mean_float_division": [
        sub("lena/math/elements.py", "        mean = float(sum_) / float(self._count)",
            "        count = float(self._count)\n        mean = float(sum_) / count")],
    "B13_fillrequest_reset_helper": [
        sub("lena/core/adapters.py",
            "            for val in self._el_request():\n                yield val\n            if self._reset:\n"
            "                self._el_reset()\n            self._n_count = 0\n\n        if self._buffer_input:",
            "            for val in self._el_request():\n                yield val\n            self._n_count = 0\n"
            "            if self._reset:\n                self._el_reset()\n\n        if self._buffer_input:")],
    "B14_write_compares_after_strip_of_nothing": [
        sub("lena/output/write.py", "                if data != existing_data:",
            "                if not (data == existing_data):")],
    "B16_pdftopng_subprocess_run": [
        sub("lena/output/pdf_to_png.py",
            "    popen = subprocess.Popen(command)\n",
            "    completed = subprocess.run(command, timeout=timeoutsec)\n"),
        sub("lena/output/pdf_to_png.py",
            "    (stdoutdata, stderrdata) = popen.communicate(pkwargs)\n    returncode = popen.returncode\n",
            "    stdoutdata, stderrdata = completed.stdout, completed.stderr\n    returncode = completed.returncode\n")],
    "B17_cache_exists_isfile": [
        sub("lena/flow/cache.py", "        return os.access(self._filename, os.R_OK)",
            "        return os.path.isfile(self._filename) and os.access(self._filename, os.R_OK)")],
    "B18_write_makedirs_exist_ok": [
        sub("lena/output/write.py",
            "                if not os.path.exists(curdir):\n",
            "                if curdir and not os.path.isdir(curdir):\n")],
    "B15_cache_dump_local_function": [
        sub("lena/flow/cache.py", "                dump = lambda val: self._dump(val, f, self.protocol)\n",
            "                def dump(val, _dump=self._dump, _f=f, _protocol=self.protocol):\n"
            "                    _dump(val, _f, _protocol)\n")],
}


def main():
    os.makedirs(OUT, exist_ok=True)
    for old in os.listdir(OUT):
        if old.endswith(".patch"):
            os.remove(os.path.join(OUT, old))
    bad = 0
    for name, edits in sorted(BENIGN.items()):
        files = {}
        # collect the paths the edits touch
        touched = []
        for e in edits:
            for cell in e.__closure__:
                v = cell.cell_contents
                if isinstance(v, str) and v.startswith("lena/") and v.endswith(".py"):
                    touched.append(v)
        orig = {}
        for p in sorted(set(touched)):
            orig[p] = open(os.path.join(REPO, p)).read()
            files[p] = orig[p]
        try:
            for e in edits:
                e(files)
        except AssertionError as exc:
            print("%s: DOES NOT APPLY any more: %s" % (name, exc))
            bad += 1
            continue
        diff = []
        for p in sorted(files):
            diff += list(difflib.unified_diff(orig[p].splitlines(True), files[p].splitlines(True),
                                              "a/" + p, "b/" + p))
        with open(os.path.join(OUT, name + ".patch"), "w") as f:
            f.write("".join(diff))
        print("%s: %d changed lines" % (name, sum(1 for ln in diff if ln[:1] in "+-" and ln[:3] not in ("+++", "---"))))
    return 1 if bad else 0


if __name__ == "__main__":
    sys.exit(main())
