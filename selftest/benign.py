#!/venv/bin/python
"""No-false-alarm self-test: every benign/*.patch (a semantics-preserving change
under which all properties still hold, and the pinned suite passes) is applied
to a scratch copy of /repo/lena; every claimed check must exit 0 on it (no
VIOLATION, no HARNESS-ERROR).

usage: benign.py [--runs N] [--props C02,C03] [name-prefix ...]
"""
import argparse
import json
import os
import re
import shutil
import subprocess
import sys
import tempfile

VERIF = os.path.dirname(os.path.dirname(os.path.abspath(__file__)))
REPO = os.environ.get("LENA_REPO_BASE", "/repo")


def main():
    ap = argparse.ArgumentParser()
    ap.add_argument("names", nargs="*")
    ap.add_argument("--runs", type=int, default=0)
    ap.add_argument("--props", default="")
    ap.add_argument("--suite", action="store_true", help="also run the pinned test suite on the patched copy")
    args = ap.parse_args()
    manifest = json.load(open(os.path.join(VERIF, "MANIFEST.json")))
    claimed = [c["property_id"] for c in manifest["checks"]]
    props = args.props.split(",") if args.props else claimed
    bdir = os.path.join(VERIF, "benign")
    sdir = os.path.join(VERIF, "benign_seeded")
    # own patches (benign/*.patch) and refactorings written by independent sub-agents
    # (benign_seeded/<id>-r<i>/patch.diff with notes.md and check.py)
    items = [(f, os.path.join(bdir, f), None) for f in sorted(os.listdir(bdir)) if f.endswith(".patch")]
    if os.path.isdir(sdir):
        for f in sorted(os.listdir(sdir)):
            pd = os.path.join(sdir, f, "patch.diff")
            if os.path.exists(os.path.join(sdir, f, "OBSOLETE.md")):
                continue
            if os.path.exists(pd):
                items.append((f, pd, os.path.join(sdir, f, "check.py")))
    if args.names:
        items = [it for it in items if any(it[0].startswith(n) for n in args.names)]
    patches = [it[0] for it in items]
    paths = dict((it[0], it[1]) for it in items)
    demos = dict((it[0], it[2]) for it in items)
    bad = 0
    for p in patches:
        d = tempfile.mkdtemp(prefix="lena_benign_")
        try:
            shutil.copytree(os.path.join(REPO, "lena"), os.path.join(d, "lena"),
                            ignore=shutil.ignore_patterns("__pycache__"))
            r = subprocess.run(["patch", "-p1", "-s", "-d", d, "-i", paths[p]],
                               capture_output=True, text=True)
            if r.returncode:
                print("%-48s PATCH DOES NOT APPLY (run selftest/make_benign.py): %s" % (p, (r.stdout + r.stderr)[:200]))
                bad += 1
                continue
            row = {}
            if demos.get(p) and os.path.exists(demos[p]):
                env = dict(os.environ, PYTHONPATH=d, PYTHONDONTWRITEBYTECODE="1")
                t = subprocess.run([sys.executable, demos[p]], cwd=d, env=env, capture_output=True, text=True,
                                   timeout=600)
                row["own_check"] = "passes" if t.returncode == 0 else "FAILS rc=%d" % t.returncode
            if args.suite:
                shutil.copytree(os.path.join(REPO, "tests"), os.path.join(d, "tests"),
                                ignore=shutil.ignore_patterns("__pycache__"))
                env = dict(os.environ, PYTHONPATH=d, PYTHONDONTWRITEBYTECODE="1")
                t = subprocess.run([sys.executable, "-m", "pytest", "-q", "-p", "no:cacheprovider", "-x", "tests"],
                                   cwd=d, env=env, capture_output=True, text=True, timeout=900)
                m = re.search(r"(\d+) passed", t.stdout + t.stderr)
                # informational: some pinned tests pin implementation details (mocked os.path.exists,
                # state leaked through the uncopied last Split branch); the property is what matters here
                row["suite"] = (m.group(0) if m else "FAILED") + ("" if t.returncode == 0 else
                                                                 " (a pinned test pins the implementation)")
            for q in props:
                env = dict(os.environ)
                env["LENA_REPO"] = d
                env["VERIF_EVIDENCE_DIR"] = os.path.join(d, "evidence")
                env["VERIF_REPLAY_DIR"] = os.path.join(d, "replays")
                if args.runs:
                    env["VERIF_RUNS"] = str(args.runs)
                c = subprocess.run([sys.executable, os.path.join(VERIF, "check.py"), q, "--tier", "quick"],
                                   capture_output=True, text=True, env=env, timeout=3000)
                out = c.stdout + c.stderr
                if c.returncode != 0 or "VIOLATION property=" in out:
                    sigs = re.findall(r"^signature=(\S+)", out, re.M)
                    harness = re.findall(r"^HARNESS-ERROR.*", out, re.M)
                    row[q] = "ALARM rc=%d %s %s" % (c.returncode, sigs[:2], [h[:160] for h in harness[:1]])
                    bad += 1
            print("%-48s %s" % (p, "silent on %d checks" % len(props) if not any(
                str(v).startswith("ALARM") for v in row.values()) else json.dumps(row)) +
                (" suite: %s" % row["suite"] if "suite" in row else "") +
                (" own check: %s" % row["own_check"] if "own_check" in row else ""))
            sys.stdout.flush()
        finally:
            shutil.rmtree(d, ignore_errors=True)
    print("benign changes: %d, false alarms / problems: %d" % (len(patches), bad))
    return 1 if bad else 0


if __name__ == "__main__":
    sys.exit(main())
