#!/venv/bin/python
"""Confirm and evaluate the seeded changes under /verif/seeded/<id>/.

For each directory (patch.diff, demo.py, meta.json):
  1. a scratch git worktree of /repo is created outside /repo and /verif;
  2. demo.py must PASS on the clean tree and FAIL with the patch;
  3. the pinned test suite must still pass with the patch;
  4. the quick check of the targeted property (and optionally of all
     claimed properties) is run with LENA_REPO pointing at the scratch tree.
The worktree is removed afterwards.  Results go to stdout and, with
--write, into meta.json ("confirmed", "caught_by").

usage: seeded.py [--confirm] [--runs N] [--all-props] [--write] [names...]
"""
import argparse
import json
import os
import re
import shutil
import subprocess
import sys
import tempfile

VERIF = os.path.dirname(os.path.dirname(os.path.abspath(__file__)))
REPO = "/repo"
PY = sys.executable


def sh(cmd, cwd=None, env=None, timeout=1800):
    r = subprocess.run(cmd, cwd=cwd, env=env, capture_output=True, text=True, timeout=timeout)
    return r.returncode, r.stdout + r.stderr


def main():
    ap = argparse.ArgumentParser()
    ap.add_argument("names", nargs="*")
    ap.add_argument("--confirm", action="store_true", help="steps 2-3 (demo and suite)")
    ap.add_argument("--runs", type=int, default=0)
    ap.add_argument("--all-props", action="store_true")
    ap.add_argument("--write", action="store_true")
    ap.add_argument("--no-check", action="store_true")
    args = ap.parse_args()
    manifest = json.load(open(os.path.join(VERIF, "MANIFEST.json")))
    claimed = [c["property_id"] for c in manifest["checks"]]
    sdir = os.path.join(VERIF, "seeded")
    names = sorted(d for d in os.listdir(sdir) if os.path.isdir(os.path.join(sdir, d)))
    if args.names:
        names = [n for n in names if any(n.startswith(a) for a in args.names)]
    summary = []
    for name in names:
        d = os.path.join(sdir, name)
        patch = os.path.join(d, "patch.diff")
        demo = os.path.join(d, "demo.py")
        target = re.match(r"(C\d\d)", name).group(1)
        if os.path.exists(os.path.join(d, "OBSOLETE.md")):
            print(json.dumps({"name": name, "obsolete": open(os.path.join(d, "OBSOLETE.md")).readline().strip()}))
            continue
        meta_path = os.path.join(d, "meta.json")
        meta = json.load(open(meta_path)) if os.path.exists(meta_path) else {}
        wt = tempfile.mkdtemp(prefix="lena_seed_")
        os.rmdir(wt)
        rc, out = sh(["git", "-C", REPO, "worktree", "add", "--detach", "-q", wt, "HEAD"])
        if rc:
            print(name, "cannot create worktree", out)
            continue
        row = {"name": name, "target": target}
        try:
            env = dict(os.environ)
            env["PYTHONPATH"] = wt
            env["PYTHONDONTWRITEBYTECODE"] = "1"
            if args.confirm:
                rc0, o0 = sh([PY, demo], cwd=wt, env=env, timeout=120)
                row["demo_clean"] = "PASS" if rc0 == 0 else "FAIL(rc=%d)" % rc0
            rc, out = sh(["git", "-C", wt, "apply", patch])
            if rc:
                row["apply"] = "FAILED: " + out.strip()[:200]
                print(json.dumps(row))
                summary.append(row)
                continue
            if args.confirm:
                rc1, o1 = sh([PY, demo], cwd=wt, env=env, timeout=120)
                row["demo_patched"] = "FAIL" if rc1 != 0 else "PASS(!)"
                rc2, o2 = sh([PY, "-m", "pytest", "-q", "-p", "no:cacheprovider", "-x", "tests"],
                             cwd=wt, env=env, timeout=900)
                m = re.search(r"(\d+) passed", o2)
                row["suite"] = (m.group(0) if m else "?") + ("" if rc2 == 0 else " rc=%d" % rc2)
                row["confirmed"] = (rc0 == 0 and rc1 != 0 and rc2 == 0 and m and m.group(1) == "153")
            if not args.no_check:
                props = claimed if args.all_props else ([target] if target in claimed else [])
                caught = {}
                for q in props:
                    cenv = dict(os.environ)
                    cenv["LENA_REPO"] = wt
                    cenv["VERIF_EVIDENCE_DIR"] = os.path.join(wt, ".evidence")
                    cenv["VERIF_REPLAY_DIR"] = os.path.join(wt, ".replays")
                    cenv["VERIF_SHRINK_SIGNATURES"] = "1"
                    if args.runs:
                        cenv["VERIF_RUNS"] = str(args.runs)
                    rcq, oq = sh([PY, os.path.join(VERIF, "check.py"), q, "--tier", "quick"],
                                 env=cenv, timeout=3000)
                    sigs = re.findall(r"^signature=(\S+)", oq, re.M)
                    if rcq == 1 and "VIOLATION property=" in oq:
                        caught[q] = sigs[:3]
                    elif rcq == 2:
                        caught[q] = ["HARNESS-ERROR: " + (re.findall(r"HARNESS-ERROR.*", oq) or [""])[0][:200]]
                row["caught_by"] = caught
                row["caught"] = bool(caught.get(target)) and not str(caught.get(target)).startswith("['HARNESS")
        finally:
            sh(["git", "-C", REPO, "worktree", "remove", "--force", wt])
            shutil.rmtree(wt, ignore_errors=True)
        print(json.dumps(row))
        sys.stdout.flush()
        summary.append(row)
        if args.write:
            meta.update({k: v for k, v in row.items() if k not in ("name",)})
            meta["property"] = target
            notes = os.path.join(d, "notes.md")
            if os.path.exists(notes):
                text = open(notes).read()
                meta["needs_to_manifest"] = " ".join(
                    ln.strip() for ln in text.splitlines()
                    if re.search(r"need|manifest|trigger|requires", ln, re.I))[:1500] or text[:800]
            meta["what_was_run"] = (
                "scratch git worktree of /repo HEAD outside /repo and /verif; demo.py on the clean "
                "worktree (must exit 0); git apply patch.diff; demo.py again (must fail); pinned suite "
                "`python -m pytest -q -p no:cacheprovider -x tests` (must report 153 passed); "
                "`check.py <property> --tier quick` with LENA_REPO=<worktree>; worktree removed")
            json.dump(meta, open(meta_path, "w"), indent=1, sort_keys=True)
    n = len(summary)
    print("seeded changes: %d; confirmed: %s; caught by the target's check: %d" % (
        n, sum(1 for r in summary if r.get("confirmed")) if args.confirm else "n/a",
        sum(1 for r in summary if r.get("caught"))))


if __name__ == "__main__":
    sys.exit(main())
