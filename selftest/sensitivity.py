#!/venv/bin/python
"""Sensitivity self-test: apply each mutant (a realistic change that keeps
the pinned suite green) to a scratch copy of /repo and demand that the
quick check of the targeted property prints a VIOLATION whose replay
reproduces in a fresh process.

usage: sensitivity.py [--runs N] [--others] [name-prefix ...]
Scratch copies live under $TMPDIR (default /tmp) and are removed
immediately.
"""
import argparse
import json
import os
import re
import shutil
import subprocess
import sys
import tempfile

VERIF = os.path.dirname(os.path.dirname(os.path.abspath(__file__)))
REPO = os.environ.get("LENA_REPO_BASE", "/repo")


def scratch_copy():
    d = tempfile.mkdtemp(prefix="lena_mut_")
    shutil.copytree(os.path.join(REPO, "lena"), os.path.join(d, "lena"),
                    ignore=shutil.ignore_patterns("__pycache__"))
    return d


def apply_patch(d, patch):
    r = subprocess.run(["patch", "-p1", "-s", "-d", d, "-i", patch], capture_output=True, text=True)
    return r.returncode == 0, r.stdout + r.stderr


def run_check(prop, d, runs, seed=0):
    env = dict(os.environ)
    env["LENA_REPO"] = d
    env["VERIF_SEED"] = str(seed)
    if runs:
        env["VERIF_RUNS"] = str(runs)
    env["VERIF_EVIDENCE_DIR"] = os.path.join(d, "evidence")
    env["VERIF_REPLAY_DIR"] = os.path.join(d, "replays")
    r = subprocess.run([sys.executable, os.path.join(VERIF, "check.py"), prop, "--tier", "quick"],
                       capture_output=True, text=True, env=env, timeout=3600)
    return r.returncode, r.stdout + r.stderr


def replay(prop, d, path):
    env = dict(os.environ)
    env["LENA_REPO"] = d
    r = subprocess.run([sys.executable, os.path.join(VERIF, "check.py"), prop, "--replay", path],
                       capture_output=True, text=True, env=env, timeout=600)
    return r.returncode, r.stdout + r.stderr


def main():
    ap = argparse.ArgumentParser()
    ap.add_argument("names", nargs="*")
    ap.add_argument("--runs", type=int, default=0)
    ap.add_argument("--dir", default=os.path.join(VERIF, "mutants"))
    ap.add_argument("--others", action="store_true",
                    help="also run the checks of the other properties (cross-talk report)")
    ap.add_argument("--props", default="")
    args = ap.parse_args()
    manifest = json.load(open(os.path.join(VERIF, "MANIFEST.json")))
    claimed = [c["property_id"] for c in manifest["checks"]]
    patches = sorted(f for f in os.listdir(args.dir) if f.endswith(".patch") or f.endswith(".diff"))
    if args.names:
        patches = [p for p in patches if any(p.startswith(n) for n in args.names)]
    bad = 0
    rows = []
    for p in patches:
        target = re.match(r"(C\d\d)", p).group(1)
        if target not in claimed:
            print("%-45s target %s not claimed, skipped" % (p, target))
            continue
        d = scratch_copy()
        try:
            ok, msg = apply_patch(d, os.path.join(args.dir, p))
            if not ok:
                print("%-45s PATCH DOES NOT APPLY: %s" % (p, msg.strip()[:200]))
                bad += 1
                continue
            rc, out = run_check(target, d, args.runs)
            vio = re.findall(r"^VIOLATION property=(\S+) replay=(\S+)", out, re.M)
            sigs = re.findall(r"^signature=(\S+)", out, re.M)
            status = "MISSED"
            if rc == 1 and vio:
                rrc, rout = replay(target, d, vio[0][1])
                if rrc == 1 and "VIOLATION" in rout and "identical" in rout:
                    status = "caught"
                else:
                    status = "caught-but-replay-failed"
            elif rc == 2:
                status = "HARNESS-ERROR"
            if status != "caught":
                bad += 1
            others = {}
            if args.others or args.props:
                for q in (args.props.split(",") if args.props else claimed):
                    if q == target:
                        continue
                    qrc, qout = run_check(q, d, args.runs)
                    others[q] = qrc
            rows.append((p, status, sigs, others))
            print("%-45s %-10s %s %s" % (p, status, ",".join(sigs)[:150],
                                         ("others=" + json.dumps(others)) if others else ""))
            if status not in ("caught",):
                print(out[-1500:])
            sys.stdout.flush()
        finally:
            shutil.rmtree(d, ignore_errors=True)
    print("mutants: %d, not caught: %d" % (len(rows), bad))
    return 1 if bad else 0


if __name__ == "__main__":
    sys.exit(main())
