#!/venv/bin/python
"""Reach self-test: after the checks ran, no rare-condition probe and no fault
kind that a property module declares may be stuck at zero (a probe stuck at
zero means the generator or the fault mix must change; it is a bug of the
machinery, not a verdict about lena).  Reads /verif/evidence/*.json."""
import glob
import json
import os
import sys

VERIF = os.path.dirname(os.path.dirname(os.path.abspath(__file__)))
bad = 0
for f in sorted(glob.glob(os.path.join(VERIF, "evidence", "*.json"))):
    ev = json.load(open(f))
    cov = ev["coverage"]
    stuck = cov.get("probes_stuck_at_zero", []) + cov.get("fault_kinds_never_fired", [])
    print("%s tier=%s runs=%d: %s" % (ev["property_id"], ev["tier"], cov["sampled_runs"],
                                      "ok" if not stuck else "STUCK AT ZERO: %s" % stuck))
    bad += bool(stuck)
sys.exit(1 if bad else 0)
